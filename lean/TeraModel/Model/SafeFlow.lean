/-
SafeFlow — an instrumented model of *where data flows* in the Tera VM (C01).

Every byte of the output and every byte of every string value carries a provenance tag:

  lit     literal template text (`WriteText`)
  esc     produced by the configured escape function at one of the two sinks
  scalar  a bool / number written by the sinks' fast path (`Value::is_safe` answers `true` for
          bool, number, none and undefined, so they are formatted straight into the output)
  raw     anything else (context data, string literals of expressions, results of operators,
          filters, concatenation, formatting of arrays and maps …)

The machine mirrors, instruction by instruction, the parts of `tera/src/vm/interpreter.rs`,
`tera/src/value/mod.rs` and `tera/src/filters.rs` that decide whether a byte reaches the output
escaped:

  * the sink rule of `WriteTop` / `WritePath`: a value bypasses the escaper iff
    `!autoescape_enabled() || value.is_safe()`;
  * `autoescape_enabled()` = `autoescape_override.unwrap_or(template.autoescape_enabled)`, the
    override being carried into includes and components, the template switching at an include
    and staying the caller's for a component;
  * the mint points of safe strings: `EndCapture`, component body (`mark_safe`) and result
    (`Value::safe_string`), `super()`, the `safe` filter;
  * which operations keep the `StringKind`: `get_item` and `slice` (and everything that only
    moves a value: variables, loops, `default`, `first`, `last`, `nth`, `get`, array `reverse`);
    every operation that builds a new string (`~`, `join`, string `reverse`, `upper`, `lower`,
    `trim`, `replace`, `escape_html`, iterating a string) yields a `Normal` string.

Strings are tagged bytes; `get_item` / `slice` / iteration work on characters, which are the
maximal groups "non-continuation byte followed by continuation bytes" (= `chars()` on valid UTF-8).
Scalars carry their `Value::format` text (the harness sends it), so number formatting is not
re-modelled here.  Panics of slicing arithmetic are C14's business and not represented.
-/
import TeraModel.Model.Escape
namespace Tera.SafeFlow
open Tera.Escape

inductive Tag where
  | lit | esc | scalar | raw
  deriving DecidableEq, Repr, Inhabited

abbrev TB := Nat × Tag
abbrev TStr := List TB

def tagAll (t : Tag) (bs : List Nat) : TStr := bs.map (fun b => (b, t))
def erase (s : TStr) : List Nat := s.map (fun tb => tb.1)

/-- Tagged value (the kinds of `ValueInner` that matter for escaping). -/
inductive TVal where
  | undef
  | none
  /-- bool / integer / float, represented by its `Value::format` text -/
  | scalar (fmt : List Nat)
  | str (safe : Bool) (bs : TStr)
  /-- `Value::Bytes`, represented by its `String::from_utf8_lossy` text -/
  | bytes (fmt : List Nat)
  | arr (xs : List TVal)
  | map (es : List (List Nat × TVal))
  deriving Repr, Inhabited

/-- Code points `impl Debug for str` writes as `\u{..}` — the same set as `debugEscapedCp` of
`Model/Format.lean` (exact below U+0378: C0 / C1 controls, U+007F, U+00A0, U+00AD, the combining
marks U+0300–U+036F; beyond that the space separators and format characters the generators
produce: U+1680, U+2000–U+200F, U+2028–U+202F, U+205F–U+206F, U+3000, U+FEFF). -/
def debugEscapedCp (n : Nat) : Bool :=
  n < 0x20 || (0x7f ≤ n && n ≤ 0xa0) || n == 0xad || (0x300 ≤ n && n ≤ 0x36f) || n == 0x1680 ||
  (0x2000 ≤ n && n ≤ 0x200f) || (0x2028 ≤ n && n ≤ 0x202f) || (0x205f ≤ n && n ≤ 0x206f) ||
  n == 0x3000 || n == 0xfeff

/-- `\u{<lower-case hex>}` as bytes -/
def unicodeEscape (cp : Nat) : List Nat :=
  [92, 117, 123] ++ (Nat.toDigits 16 cp).map Char.toNat ++ [125]

/-- one character (code point `cp`, UTF-8 bytes `bs`) under `char::escape_debug` inside a `str` -/
def debugChar (cp : Nat) (bs : List Nat) : List Nat :=
  if cp == 34 then [92, 34] else if cp == 92 then [92, 92] else if cp == 10 then [92, 110]
  else if cp == 13 then [92, 114] else if cp == 9 then [92, 116] else if cp == 0 then [92, 48]
  else if debugEscapedCp cp then unicodeEscape cp else bs

/-- the characters of a UTF-8 byte string, each through `debugChar` (a byte that does not start a
well-formed sequence — impossible in a `str` — is copied) -/
def debugBytes : List Nat → List Nat
  | [] => []
  | b :: rest =>
    if b < 0x80 then debugChar b [b] ++ debugBytes rest
    else if b < 0xE0 then
      match rest with
      | c1 :: r => debugChar ((b % 32) * 64 + c1 % 64) [b, c1] ++ debugBytes r
      | [] => [b]
    else if b < 0xF0 then
      match rest with
      | c1 :: c2 :: r => debugChar ((b % 16) * 4096 + (c1 % 64) * 64 + c2 % 64) [b, c1, c2] ++ debugBytes r
      | r => b :: r
    else
      match rest with
      | c1 :: c2 :: c3 :: r =>
        debugChar ((b % 8) * 262144 + (c1 % 64) * 4096 + (c2 % 64) * 64 + c3 % 64) [b, c1, c2, c3] ++ debugBytes r
      | r => b :: r

/-- `{:?}` of a `str` (`impl Debug for str`): quotes, backslash escapes for `"` `\` newline, CR,
tab, NUL, `\u{..}` for the code points of `debugEscapedCp`, everything else as is. -/
def debugStr (bs : List Nat) : List Nat := 34 :: debugBytes bs ++ [34]

mutual
/-- `Value::format` (untagged bytes). -/
def fmt : TVal → List Nat
  | .undef => []
  | .none => []
  | .scalar f => f
  | .str _ bs => erase bs
  | .bytes f => f
  | .arr xs => 91 :: fmtElems xs ++ [93]
  | .map es => 123 :: fmtEntries es ++ [125]
/-- element of an array / value of a map entry: strings are printed with `{:?}` -/
def fmtElem : TVal → List Nat
  | .str _ bs => debugStr (erase bs)
  | .undef => []
  | .none => []
  | .scalar f => f
  | .bytes f => f
  | .arr xs => 91 :: fmtElems xs ++ [93]
  | .map es => 123 :: fmtEntries es ++ [125]
def fmtElems : List TVal → List Nat
  | [] => []
  | [x] => fmtElem x
  | x :: y :: rest => fmtElem x ++ [44, 32] ++ fmtElems (y :: rest)
def fmtEntries : List (List Nat × TVal) → List Nat
  | [] => []
  | [(k, v)] => debugStr k ++ [58, 32] ++ fmtElem v
  | (k, v) :: e :: rest => debugStr k ++ [58, 32] ++ fmtElem v ++ [44, 32] ++ fmtEntries (e :: rest)
end

/-- `Value::format` with provenance: a string keeps its tags, a scalar is tagged `scalar`,
everything that is *built* by formatting is `raw`. -/
def fmtT : TVal → TStr
  | .str _ bs => bs
  | .scalar f => tagAll .scalar f
  | v => tagAll .raw (fmt v)

/-- `Value::is_safe`. -/
def isSafe : TVal → Bool
  | .str s _ => s
  | .arr _ | .map _ | .bytes _ => false
  | _ => true

/-- Characters of a tagged string: a continuation byte joins the group before it. -/
def splitChars : TStr → List TStr
  | [] => []
  | tb :: rest =>
    match rest, splitChars rest with
    | (b1, _) :: _, g :: gs => if isCont b1 then (tb :: g) :: gs else [tb] :: g :: gs
    | _, gs => [tb] :: gs

/-- `resolve_index`: Python index into `0..len`, `none` when out of range. -/
def pyIndex {α : Type} (xs : List α) (i : Int) : Option α :=
  let n : Int := if i < 0 then i + (xs.length : Int) else i
  if 0 ≤ n ∧ n < (xs.length : Int) then xs[n.toNat]? else Option.none

/-- loop condition of `slice_items`: `while if step > 0 { i < e } else { i > e }` -/
def sliceCont (step i e : Int) : Bool := if step > 0 then decide (i < e) else decide (i > e)

def sliceLoop {α : Type} (xs : List α) (step e : Int) : Nat → Int → List α
  | 0, _ => []
  | fuel + 1, i =>
    if sliceCont step i e then
      match xs[i.toNat]? with
      | some x => x :: sliceLoop xs step e fuel (i + step)
      | Option.none => sliceLoop xs step e fuel (i + step)
    else []

/-- `slice_items` of `Value::slice` (step ≠ 0). -/
def sliceItems {α : Type} (xs : List α) (start stop : Option Int) (step : Int) : List α :=
  let len : Int := (xs.length : Int)
  let lo : Int := if step > 0 then 0 else -1
  let hi : Int := if step > 0 then len else len - 1
  let resolve (p : Option Int) (d : Int) : Int :=
    match p with
    | Option.none => d
    | some p => let p := if p < 0 then p + len else p
                if p < lo then lo else if p > hi then hi else p
  let s := resolve start (if step > 0 then lo else hi)
  let e := resolve stop (if step > 0 then hi else lo)
  sliceLoop xs step e (xs.length + 1) s

def lookup (n : String) : List (String × TVal) → Option TVal
  | [] => Option.none
  | (k, v) :: rest => if k == n then some v else lookup n rest

def lookupKey (k : List Nat) : List (List Nat × TVal) → Option TVal
  | [] => Option.none
  | (k', v) :: rest => if k' == k then some v else lookupKey k rest

/-- Filters that take a `&str` and build a new (Normal) string. -/
inductive StrFn where
  | upper | lower | trim | escapeHtml
  | replace (pat to : List Nat)
  deriving Repr, Inhabited

def asciiUpper (b : Nat) : Nat := if 97 ≤ b ∧ b ≤ 122 then b - 32 else b
def asciiLower (b : Nat) : Nat := if 65 ≤ b ∧ b ≤ 90 then b + 32 else b
def isWs (b : Nat) : Bool := b == 32 || b == 9 || b == 10 || b == 13 || b == 12 || b == 11

/-- characters of a UTF-8 byte string: a continuation byte joins the group before it -/
def byteChars : List Nat → List (List Nat)
  | [] => []
  | b :: rest =>
    match rest, byteChars rest with
    | b1 :: _, g :: gs => if isCont b1 then (b :: g) :: gs else [b] :: g :: gs
    | _, gs => [b] :: gs

/-- `char::is_whitespace` (the Unicode `White_Space` property) on the UTF-8 bytes of one character:
U+0009–U+000D, U+0020, U+0085, U+00A0, U+1680, U+2000–U+200A, U+2028, U+2029, U+202F, U+205F,
U+3000 -/
def isWsChar : List Nat → Bool
  | [b] => isWs b
  | [0xC2, c] => c == 0x85 || c == 0xA0
  | [0xE1, 0x9A, 0x80] => true
  | [0xE2, 0x80, c] => (0x80 ≤ c && c ≤ 0x8A) || c == 0xA8 || c == 0xA9 || c == 0xAF
  | [0xE2, 0x81, 0x9F] => true
  | [0xE3, 0x80, 0x80] => true
  | _ => false

def replaceLoop (pat to : List Nat) : Nat → List Nat → List Nat
  | 0, bs => bs
  | _ + 1, [] => []
  | fuel + 1, b :: rest =>
    if pat.isPrefixOf (b :: rest) then to ++ replaceLoop pat to fuel ((b :: rest).drop pat.length)
    else b :: replaceLoop pat to fuel rest

/-- Text functions (ASCII case mapping: the harness keeps cased characters of the data inside
ASCII; `trim` strips Unicode white space like `str::trim`; an empty `replace` pattern is not used). -/
def StrFn.apply : StrFn → List Nat → List Nat
  | .upper, bs => bs.map asciiUpper
  | .lower, bs => bs.map asciiLower
  | .trim, bs => (((byteChars bs).dropWhile isWsChar).reverse.dropWhile isWsChar).reverse.flatten
  | .escapeHtml, bs => Tera.Escape.escapeHtml bs
  | .replace pat to, bs => if pat.isEmpty then bs else replaceLoop pat to (bs.length + 1) bs

inductive Instr where
  /-- `LoadName` / first segment of `LoadPath`/`WritePath`: loops and set variables, then the
  include parents, then the context -/
  | load (name : String)
  /-- string literal of an expression (`LoadConst`) -/
  | strLit (bs : List Nat)
  /-- bool / number literal (`LoadConst`), given by its text -/
  | scalarLit (fmt : List Nat)
  /-- `StrConcat` (`~`) -/
  | concat
  /-- `BinarySubscript` with an integer literal -/
  | index (i : Int)
  /-- `LoadAttr` -/
  | attr (k : List Nat)
  /-- `Slice` with literal bounds -/
  | slice (start stop step : Option Int)
  /-- `default(value="…")` -/
  | dflt (d : List Nat)
  | first
  | last
  | nth (n : Nat)
  /-- `get(key="…")` -/
  | getKey (k : List Nat)
  | reverse
  /-- `join(sep="…")` -/
  | join (sep : List Nat)
  | strFn (f : StrFn)
  /-- the `safe` filter (or any filter/function registered `is_safe`): mints a safe string -/
  | markSafe
  | buildArr (n : Nat)
  | buildMap (keys : List (List Nat))
  /-- `Set` -/
  | set (name : String)
  | capture
  /-- `EndCapture`: mints a safe string from the capture buffer -/
  | endCapture
  /-- `WriteText` -/
  | writeText (bs : List Nat)
  /-- `WriteTop` / `WritePath`: the sink -/
  | write
  deriving Repr, Inhabited

/-- Programs: straight-line instructions plus the constructs that run another chunk. -/
inductive Prog where
  | done
  | op (i : Instr) (k : Prog)
  /-- `for var in <top of stack>`: body once per element -/
  | forEach (var : String) (body : Prog) (k : Prog)
  /-- component call: captured body (only when `hasBody`), argument expressions (leave one
  value per parameter), the definition's parameters and chunk -/
  | comp (hasBody : Bool) (body : Prog) (args : Prog) (params : List String) (defn : Prog) (k : Prog)
  /-- `Include` of a template whose own autoescape flag is `tplAe` -/
  | incl (tplAe : Bool) (tpl : Prog) (k : Prog)
  /-- `super()`: the parent block's chunk rendered aside, result minted safe -/
  | super (parent : Prog) (k : Prog)
  /-- `RenderBlock`: the selected block chunk runs in place -/
  | block (body : Prog) (k : Prog)
  deriving Repr, Inhabited

inductive Err where
  /-- "Tried to render a variable that is not defined", indexing/slicing undefined … -/
  | undefined
  /-- a filter / operator rejected the kind of its operand -/
  | type
  /-- not something the compiler emits (stack underflow, `EndCapture` without `Capture`) -/
  | stuck
  deriving Repr, DecidableEq, Inhabited

structure St where
  stack : List TVal := []
  /-- loop and `set` variables of this VM state, innermost first -/
  vars : List (String × TVal) := []
  /-- what lookups fall back to: the include parents' variables, then the context -/
  parent : List (String × TVal) := []
  /-- `State::capture_buffers`, innermost first -/
  caps : List TStr := []
  out : TStr := []
  deriving Repr, Inhabited

structure Env where
  /-- `Tera::escape_fn` -/
  escape : List Nat → List Nat
  /-- `VirtualMachine::autoescape_override` -/
  override : Option Bool

def emit (st : St) (bs : TStr) : St :=
  match st.caps with
  | c :: cs => { st with caps := (c ++ bs) :: cs }
  | [] => { st with out := st.out ++ bs }

def push (st : St) (v : TVal) : St := { st with stack := v :: st.stack }

/-- The sink rule. -/
def sinkBytes (env : Env) (ae : Bool) (v : TVal) : TStr :=
  if !ae || isSafe v then fmtT v else tagAll .esc (env.escape (fmt v))

def popN : Nat → List TVal → Option (List TVal × List TVal)
  | 0, s => some ([], s)
  | _ + 1, [] => Option.none
  | n + 1, v :: s => (popN n s).map (fun (vs, r) => (vs ++ [v], r))

def intercalate (sep : List Nat) : List (List Nat) → List Nat
  | [] => []
  | [x] => x
  | x :: y :: rest => x ++ sep ++ intercalate sep (y :: rest)

def step (env : Env) (ae : Bool) (i : Instr) (st : St) : Except Err St :=
  match i, st.stack with
  | .load n, _ => .ok (push st ((lookup n (st.vars ++ st.parent)).getD .undef))
  | .strLit bs, _ => .ok (push st (.str false (tagAll .raw bs)))
  | .scalarLit f, _ => .ok (push st (.scalar f))
  | .concat, b :: a :: s => .ok { st with stack := .str false (tagAll .raw (fmt a ++ fmt b)) :: s }
  | .index i, v :: s =>
    match v with
    | .undef => .error .undefined
    | .arr xs => .ok { st with stack := (pyIndex xs i).getD .undef :: s }
    | .str sf bs =>
      .ok { st with stack := (match pyIndex (splitChars bs) i with
                              | some c => .str sf c
                              | Option.none => .undef) :: s }
    | _ => .ok { st with stack := .undef :: s }
  | .attr k, v :: s =>
    match v with
    | .undef => .error .undefined
    | .map es => .ok { st with stack := (lookupKey k es).getD .undef :: s }
    | _ => .ok { st with stack := .undef :: s }
  | .slice a b c, v :: s =>
    if c == some 0 then .error .type else
    match v with
    | .undef => .error .undefined
    | .arr xs => .ok { st with stack := .arr (sliceItems xs a b (c.getD 1)) :: s }
    | .str sf bs => .ok { st with stack := .str sf (sliceItems (splitChars bs) a b (c.getD 1)).flatten :: s }
    | _ => .error .type
  | .dflt d, v :: s =>
    match v with
    | .undef => .ok { st with stack := .str false (tagAll .raw d) :: s }
    | v => .ok { st with stack := v :: s }
  | .first, v :: s =>
    match v with
    | .arr xs => .ok { st with stack := xs.head?.getD .none :: s }
    | _ => .error .type
  | .last, v :: s =>
    match v with
    | .arr xs => .ok { st with stack := xs.getLast?.getD .none :: s }
    | _ => .error .type
  | .nth n, v :: s =>
    match v with
    | .arr xs => .ok { st with stack := xs[n]?.getD .none :: s }
    | _ => .error .type
  | .getKey k, v :: s =>
    match v with
    | .map es =>
      match lookupKey k es with
      | some x => .ok { st with stack := x :: s }
      | Option.none => .error .type
    | _ => .error .type
  | .reverse, v :: s =>
    match v with
    | .arr xs => .ok { st with stack := .arr xs.reverse :: s }
    | .str _ bs => .ok { st with stack := .str false (tagAll .raw (erase (splitChars bs).reverse.flatten)) :: s }
    | _ => .error .type
  | .join sep, v :: s =>
    match v with
    | .arr xs => .ok { st with stack := .str false (tagAll .raw (intercalate sep (xs.map fmt))) :: s }
    | _ => .error .type
  | .strFn f, v :: s =>
    match v with
    | .str _ bs => .ok { st with stack := .str false (tagAll .raw (f.apply (erase bs))) :: s }
    | _ => .error .type
  | .markSafe, v :: s => .ok { st with stack := .str true (fmtT v) :: s }
  | .buildArr n, stk =>
    match popN n stk with
    | some (vs, s) => .ok { st with stack := .arr vs :: s }
    | Option.none => .error .stuck
  | .buildMap ks, stk =>
    match popN ks.length stk with
    | some (vs, s) => .ok { st with stack := .map (ks.zip vs) :: s }
    | Option.none => .error .stuck
  | .set n, v :: s => .ok { st with stack := s, vars := (n, v) :: st.vars }
  | .capture, _ => .ok { st with caps := [] :: st.caps }
  | .endCapture, _ =>
    match st.caps with
    | c :: cs => .ok { st with caps := cs, stack := .str true c :: st.stack }
    | [] => .error .stuck
  | .writeText bs, _ => .ok (emit st (tagAll .lit bs))
  | .write, v :: s =>
    match v with
    | .undef => .error .undefined
    | v => .ok (emit { st with stack := s } (sinkBytes env ae v))
  | _, _ => .error .stuck

/-- Elements a `for` loop binds its value variable to (`ForLoop::new`): array elements, map
values, the characters of a string as new Normal strings. -/
def iterElems : TVal → Option (List TVal)
  | .arr xs => some xs
  | .map es => some (es.map (fun e => e.2))
  | .str _ bs => some ((splitChars bs).map (fun c => .str false (tagAll .raw (erase c))))
  | _ => Option.none

/-- One pass of a loop body per element; variables set in the body are loop-local. -/
def loopElems (f : St → Except Err St) (var : String) : List TVal → St → Except Err St
  | [], st => .ok st
  | x :: xs, st =>
    match f { st with vars := (var, x) :: st.vars } with
    | .ok st' => loopElems f var xs { st' with vars := st.vars }
    | .error e => .error e

/-- `context.insert_value("body", body_value)` of `build_context` -/
def bodyCtx : Option TVal → List (String × TVal)
  | some b => [("body", b)]
  | Option.none => []

/-- The part of a component call after the optional body capture: kwargs are evaluated in the
caller's state, then `render_component` runs the definition in a *fresh* state holding only the
built context (same template and override, hence the same escaping mode) and the result is
pushed as a safe string (`Value::safe_string(&val)`). -/
def compCall (runArgs runDefn runK : St → Except Err St) (params : List String) (st1 : St)
    (bodyVal : Option TVal) : Except Err St :=
  match runArgs st1 with
  | .error e => .error e
  | .ok st2 =>
    match popN params.length st2.stack with
    | Option.none => .error .stuck
    | some (vals, s) =>
      match runDefn { vars := params.zip vals ++ bodyCtx bodyVal } with
      | .error e => .error e
      | .ok st3 => runK { st2 with stack := .str true st3.out :: s }

/-- Run a program in a VM whose `autoescape_enabled()` answers `ae`. -/
def run (env : Env) : Bool → Prog → St → Except Err St
  | _, .done, st => .ok st
  | ae, .op i k, st =>
    match step env ae i st with
    | .ok st' => run env ae k st'
    | .error e => .error e
  | ae, .forEach var body k, st =>
    match st.stack with
    | v :: s =>
      match iterElems v with
      | some xs =>
        match loopElems (run env ae body) var xs { st with stack := s } with
        | .ok st' => run env ae k st'
        | .error e => .error e
      | Option.none => .error .type
    | [] => .error .stuck
  | ae, .comp hasBody body args params defn k, st =>
    match hasBody with
    | false => compCall (run env ae args) (run env ae defn) (run env ae k) params st Option.none
    | true =>
      -- Capture; body; EndCapture (the body runs in the caller's state and escaping mode)
      match run env ae body { st with caps := [] :: st.caps } with
      | .ok st1 =>
        match st1.caps with
        | c :: cs =>
          compCall (run env ae args) (run env ae defn) (run env ae k) params { st1 with caps := cs }
            (some (.str true c))
        | [] => .error .stuck
      | .error e => .error e
  | ae, .incl tplAe tpl k, st =>
    -- `render_include`: the included template's flag unless an override is carried
    match run env (env.override.getD tplAe) tpl { parent := st.vars ++ st.parent } with
    | .error e => .error e
    | .ok r => run env ae k (emit st r.out)
  | ae, .super parent k, st =>
    match run env ae parent { st with caps := [], out := [] } with
    | .error e => .error e
    | .ok r => run env ae k { r with caps := st.caps, out := st.out, stack := .str true r.out :: r.stack }
  | ae, .block body k, st =>
    match run env ae body st with
    | .error e => .error e
    | .ok st' => run env ae k st'

/-- A whole render: root template flag `rootAe` (or the override), context in `parent`. -/
def render (env : Env) (rootAe : Bool) (p : Prog) (ctx : List (String × TVal)) : Except Err TStr :=
  match run env (env.override.getD rootAe) p { parent := ctx } with
  | .ok st => .ok st.out
  | .error e => .error e

end Tera.SafeFlow
