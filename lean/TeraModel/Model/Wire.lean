/-
Line-protocol encoding of values shared by the Rust harness (harness/src/wire.rs) and the
Lean drivers.  Prefix coded, whitespace separated, so parsing is a simple recursive descent:

  U                undefined          N            none
  B0 | B1          bool               u64:<dec>  i64:<dec>  u128:<dec>  i128:<dec>
  f:<16 hex>       f64 bit pattern    s:<hex utf8>  normal string   S:<hex utf8>  safe string
  y:<hex>          bytes              A<n> v1 … vn  array
  M<n> k1 v1 … kn vn   map (keys are bool / integer / string values, sent in key order)

Strings travel as hex of their UTF-8 bytes; `s:` alone is the empty string.
-/
import TeraModel.Model.Value
namespace Tera.Wire

def hexVal (c : Char) : Option Nat :=
  if '0' ≤ c ∧ c ≤ '9' then some (c.toNat - '0'.toNat)
  else if 'a' ≤ c ∧ c ≤ 'f' then some (c.toNat - 'a'.toNat + 10)
  else if 'A' ≤ c ∧ c ≤ 'F' then some (c.toNat - 'A'.toNat + 10)
  else none

/-- hex string → bytes -/
def hexBytes : List Char → Option (List Nat)
  | [] => some []
  | a :: b :: rest => do
    let x ← hexVal a
    let y ← hexVal b
    let r ← hexBytes rest
    pure ((x * 16 + y) :: r)
  | _ => none

def hexNat (cs : List Char) : Option Nat :=
  cs.foldlM (fun acc c => (hexVal c).map (fun v => acc * 16 + v)) 0

def hexDigit (n : Nat) : Char :=
  if n < 10 then Char.ofNat ('0'.toNat + n) else Char.ofNat ('a'.toNat + n - 10)

def bytesHex (bs : List Nat) : String :=
  String.ofList (bs.flatMap fun b => [hexDigit (b / 16), hexDigit (b % 16)])

def natHex16 (n : Nat) : String :=
  String.ofList ((List.range 16).reverse.map fun i => hexDigit ((n / 16^i) % 16))

/-- UTF-8 decode (assumes valid input, which the harness guarantees for `s:`/`S:`). -/
def utf8Decode : List Nat → List Char
  | [] => []
  | b :: rest =>
    if b < 0x80 then Char.ofNat b :: utf8Decode rest
    else if b < 0xE0 then
      match rest with
      | c1 :: r => Char.ofNat ((b % 0x20) * 64 + c1 % 64) :: utf8Decode r
      | _ => []
    else if b < 0xF0 then
      match rest with
      | c1 :: c2 :: r => Char.ofNat ((b % 0x10) * 4096 + (c1 % 64) * 64 + c2 % 64) :: utf8Decode r
      | _ => []
    else
      match rest with
      | c1 :: c2 :: c3 :: r =>
        Char.ofNat ((b % 8) * 262144 + (c1 % 64) * 4096 + (c2 % 64) * 64 + c3 % 64) :: utf8Decode r
      | _ => []

def utf8EncodeChar (c : Char) : List Nat :=
  let n := c.toNat
  if n < 0x80 then [n]
  else if n < 0x800 then [0xC0 + n / 64, 0x80 + n % 64]
  else if n < 0x10000 then [0xE0 + n / 4096, 0x80 + (n / 64) % 64, 0x80 + n % 64]
  else [0xF0 + n / 262144, 0x80 + (n / 4096) % 64, 0x80 + (n / 64) % 64, 0x80 + n % 64]

def utf8Encode (cs : List Char) : List Nat := cs.flatMap utf8EncodeChar

def strOfHex (h : String) : Option (List Char) := (hexBytes h.toList).map utf8Decode
def hexOfStr (s : List Char) : String := bytesHex (utf8Encode s)

def valueToKey : Value → Option Key
  | .bool b => some (.bool b)
  | .u64 n => some (.u64 n)
  | .i64 n => some (.i64 n)
  | .u128 n => some (.u128 n)
  | .i128 n => some (.i128 n)
  | .str _ s => some (.str s)
  | _ => none

def keyToValue : Key → Value
  | .bool b => .bool b
  | .u64 n => .u64 n
  | .i64 n => .i64 n
  | .u128 n => .u128 n
  | .i128 n => .i128 n
  | .str s => .str false s

def afterPrefix (p : String) (t : String) : Option String :=
  if t.startsWith p then some (t.drop p.length).toString else none

mutual
/-- Parse one value from a token list; returns the value and the remaining tokens. -/
partial def parseValue : List String → Option (Value × List String)
  | [] => none
  | t :: rest =>
    if t == "U" then some (.undef, rest)
    else if t == "N" then some (.none, rest)
    else if t == "B0" then some (.bool false, rest)
    else if t == "B1" then some (.bool true, rest)
    else if let some d := afterPrefix "u64:" t then d.toNat?.map (fun n => (.u64 n, rest))
    else if let some d := afterPrefix "i64:" t then d.toInt?.map (fun n => (.i64 n, rest))
    else if let some d := afterPrefix "u128:" t then d.toNat?.map (fun n => (.u128 n, rest))
    else if let some d := afterPrefix "i128:" t then d.toInt?.map (fun n => (.i128 n, rest))
    else if let some d := afterPrefix "f:" t then (hexNat d.toList).map (fun n => (.f64 (F64.ofBits n), rest))
    else if let some d := afterPrefix "s:" t then (strOfHex d).map (fun s => (.str false s, rest))
    else if let some d := afterPrefix "S:" t then (strOfHex d).map (fun s => (.str true s, rest))
    else if let some d := afterPrefix "y:" t then (hexBytes d.toList).map (fun b => (.bytes b, rest))
    else if let some d := afterPrefix "A" t then
      match d.toNat? with
      | some n => (parseValues n rest).map (fun (vs, r) => (.arr vs, r))
      | none => none
    else if let some d := afterPrefix "M" t then
      match d.toNat? with
      | some n => (parseEntries n rest).map (fun (es, r) => (.map es, r))
      | none => none
    else none

partial def parseValues : Nat → List String → Option (List Value × List String)
  | 0, ts => some ([], ts)
  | n+1, ts => do
    let (v, r) ← parseValue ts
    let (vs, r') ← parseValues n r
    pure (v :: vs, r')

partial def parseEntries : Nat → List String → Option (List (Key × Value) × List String)
  | 0, ts => some ([], ts)
  | n+1, ts => do
    let (kv, r) ← parseValue ts
    let k ← valueToKey kv
    let (v, r') ← parseValue r
    let (es, r'') ← parseEntries n r'
    pure ((k, v) :: es, r'')
end

mutual
partial def showValue : Value → String
  | .undef => "U"
  | .none => "N"
  | .bool b => if b then "B1" else "B0"
  | .u64 n => s!"u64:{n}"
  | .i64 n => s!"i64:{n}"
  | .u128 n => s!"u128:{n}"
  | .i128 n => s!"i128:{n}"
  | .f64 x => "f:" ++ natHex16 x.toBits
  | .str false s => "s:" ++ hexOfStr s
  | .str true s => "S:" ++ hexOfStr s
  | .bytes b => "y:" ++ bytesHex b
  | .arr xs => s!"A{xs.length}" ++ String.join (xs.map fun v => " " ++ showValue v)
  | .map es => s!"M{es.length}" ++ String.join (es.map fun (k, v) => " " ++ showValue (keyToValue k) ++ " " ++ showValue v)
end

def tokens (line : String) : List String :=
  (line.trimAscii.toString.splitOn " ").filter (· ≠ "")

end Tera.Wire
