/-
Mirror of tera/src/delimiters.rs: the six delimiters and `Delimiters::validate`.
A delimiter is a Rust `str`, so its bytes are valid UTF-8 (`Delims.WellFormed`); `validate`
only looks at byte lengths and at equality of the three start delimiters.
-/
import TeraModel.Model.Utf8
namespace Tera

structure Delims where
  blockStart : Bytes
  blockEnd : Bytes
  variableStart : Bytes
  variableEnd : Bytes
  commentStart : Bytes
  commentEnd : Bytes
  deriving Repr, DecidableEq

namespace Delims

/-- `Delimiters::validate` (delimiters.rs:39-99): `true` = `Ok(())`. -/
def validate (d : Delims) : Bool :=
  if d.blockStart.length ≠ 2 then false
  else if d.blockEnd.length ≠ 2 then false
  else if d.variableStart.length ≠ 2 then false
  else if d.variableEnd.length ≠ 2 then false
  else if d.commentStart.length ≠ 2 then false
  else if d.commentEnd.length ≠ 2 then false
  else if d.blockStart = d.variableStart then false
  else if d.blockStart = d.commentStart then false
  else if d.variableStart = d.commentStart then false
  else true

/-- The fields are Rust strings: valid UTF-8. -/
def wellFormed (d : Delims) : Bool :=
  Utf8.valid d.blockStart && Utf8.valid d.blockEnd && Utf8.valid d.variableStart
    && Utf8.valid d.variableEnd && Utf8.valid d.commentStart && Utf8.valid d.commentEnd

/-- What `Tera::set_delimiters` accepts: strings (valid UTF-8) passing `validate`. -/
def accepted (d : Delims) : Bool := d.wellFormed && d.validate

end Delims
end Tera
