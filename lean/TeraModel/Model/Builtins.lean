/-
Model of the built-in filters (tera/src/filters.rs), tests (tera/src/tests.rs) and functions
(tera/src/functions.rs) with algorithmic content, on `Tera.Value`.  Strings are `List Char`
(the Rust code is `chars()` based or slices at offsets obtained from `char_indices`).

Not modelled here (value level): `length first last nth reverse split join sort unique values
keys pairs group_by` (collection filters, property C16) — for those only the argument
extraction that guards the call is modelled (`Outcome.unmodelled` once the body would run).

std behaviour taken as parameters (`Params`): Unicode case mapping (`char::to_uppercase`,
`char::to_lowercase`, `str::to_uppercase`, `str::to_lowercase`) and `str::parse::<f64>`; a
concrete ASCII instance is `asciiParams`.  `char::is_whitespace` (the Unicode White_Space set),
`str::trim*`, `trim_*_matches`, `replace`, `lines`, `split_whitespace`, `i128::from_str_radix`
are modelled concretely from their documentation.

Panic sites of the Rust are explicit (`Outcome.panic`): the `unwrap`s after a kind check in
`int` / `abs`, and the unchecked `start + i * step_by` of `range`.
-/
import TeraModel.Model.Args
namespace Tera

/-! ### float helpers (`f64::round`, `ceil`, `floor`, `abs`) on the exact dyadic model -/
namespace F64

/-- integer-valued float with an explicit sign (keeps `-0.0`) -/
def ofSignedNat (neg : Bool) (n : Nat) : F64 := .fin neg n 0

def isNeg : F64 → Bool
  | .fin neg .. => neg
  | .inf neg => neg
  | .nan => false

/-- `f64::round`: nearest integer, ties away from zero. -/
def roundF (x : F64) : F64 :=
  match x with
  | .fin neg _ _ =>
    let a := x.num.natAbs
    let d := x.den
    let q := a / d
    let r := a % d
    ofSignedNat neg (if 2 * r ≥ d then q + 1 else q)
  | o => o

/-- `f64::floor` keeping the sign of zero. -/
def floorF (x : F64) : F64 :=
  match x with
  | .fin neg _ _ =>
    let n := x.floorInt
    ofSignedNat (if n = 0 then neg else decide (n < 0)) n.natAbs
  | o => o

/-- `f64::ceil` keeping the sign of zero. -/
def ceilF (x : F64) : F64 :=
  match x with
  | .fin neg _ _ =>
    let n := -((-x.num) / (x.den : Int))
    ofSignedNat (if n = 0 then neg else decide (n < 0)) n.natAbs
  | o => o

/-- `f64::abs`. -/
def absF : F64 → F64
  | .fin _ m e => .fin false m e
  | .inf _ => .inf false
  | .nan => .nan

end F64

namespace Builtins
open Tera.Args

/-- std behaviour the model does not define. -/
structure Params where
  upperChar : Char → List Char
  lowerChar : Char → List Char
  upperStr : List Char → List Char
  lowerStr : List Char → List Char
  parseF64 : List Char → Option F64

/-- Concrete instance, exact on ASCII text (the driver refuses non-ASCII input to the case
filters and never reaches `parseF64`). -/
def asciiParams : Params where
  upperChar c := [c.toUpper]
  lowerChar c := [c.toLower]
  upperStr s := s.map Char.toUpper
  lowerStr s := s.map Char.toLower
  parseF64 _ := none

inductive Outcome where
  | ok (v : Value)
  | err (e : BErr)
  | panic (site : String)
  | unmodelled
  deriving Repr

def ofExcept {α : Type} (r : Except BErr α) (k : α → Outcome) : Outcome :=
  match r with
  | .ok a => k a
  | .error e => .err e

def strV (s : List Char) : Value := .str false s

/-! ### characters and text primitives -/

/-- `char::is_whitespace`: the Unicode `White_Space` property. -/
def isWhitespace (c : Char) : Bool :=
  let n := c.toNat
  (9 ≤ n && n ≤ 13) || n == 32 || n == 0x85 || n == 0xA0 || n == 0x1680 || (0x2000 ≤ n && n ≤ 0x200A)
    || n == 0x2028 || n == 0x2029 || n == 0x202F || n == 0x205F || n == 0x3000

/-- `char::is_ascii_punctuation`. -/
def isAsciiPunct (c : Char) : Bool :=
  let n := c.toNat
  (33 ≤ n && n ≤ 47) || (58 ≤ n && n ≤ 64) || (91 ≤ n && n ≤ 96) || (123 ≤ n && n ≤ 126)

def trimStartWs (s : List Char) : List Char := s.dropWhile isWhitespace
def trimEndWs (s : List Char) : List Char := (s.reverse.dropWhile isWhitespace).reverse
def trimWs (s : List Char) : List Char := trimEndWs (trimStartWs s)

/-- `s.strip_prefix(pat)`. -/
def stripPrefix? : List Char → List Char → Option (List Char)
  | [], s => some s
  | _ :: _, [] => none
  | p :: ps, c :: cs => if p = c then stripPrefix? ps cs else none

/-- `str::trim_start_matches(pat: &str)`: strips `pat` while it is a prefix; the empty pattern
strips nothing. -/
def trimStartMatchesAux (pat : List Char) : Nat → List Char → List Char
  | 0, s => s
  | fuel + 1, s =>
    match stripPrefix? pat s with
    | some rest => trimStartMatchesAux pat fuel rest
    | none => s

def trimStartMatches (pat s : List Char) : List Char :=
  if pat = [] then s else trimStartMatchesAux pat s.length s

/-- `str::trim_end_matches(pat: &str)`. -/
def trimEndMatches (pat s : List Char) : List Char :=
  (trimStartMatches pat.reverse s.reverse).reverse

/-- `str::replace(from, to)`: leftmost non-overlapping matches; the empty pattern matches at
every character boundary. -/
def replaceAux (frm to : List Char) : Nat → List Char → List Char
  | 0, s => s
  | _ + 1, [] => []
  | fuel + 1, c :: cs =>
    match stripPrefix? frm (c :: cs) with
    | some rest => to ++ replaceAux frm to fuel rest
    | none => c :: replaceAux frm to fuel cs

def replace (frm to s : List Char) : List Char :=
  if frm = [] then to ++ s.flatMap (fun c => c :: to) else replaceAux frm to (s.length + 1) s

/-- `escape_html` (utils.rs; byte-wise, the five specials are ASCII). -/
def escapeHtml (s : List Char) : List Char :=
  s.flatMap fun c =>
    if c = '&' then "&amp;".toList else if c = '<' then "&lt;".toList else if c = '>' then "&gt;".toList
    else if c = '"' then "&quot;".toList else if c = '\'' then "&#39;".toList else [c]

/-- `filters::escape_xml`. -/
def escapeXml (s : List Char) : List Char :=
  s.flatMap fun c =>
    if c = '&' then "&amp;".toList else if c = '<' then "&lt;".toList else if c = '>' then "&gt;".toList
    else if c = '"' then "&quot;".toList else if c = '\'' then "&apos;".toList else [c]

def br : List Char := "<br>".toList

/-- `val.replace("\r\n", "<br>").replace(['\n', '\r'], "<br>")`. -/
def newlinesToBr (s : List Char) : List Char :=
  (replace ['\r', '\n'] br s).flatMap fun c => if c = '\n' ∨ c = '\r' then br else [c]

/-- `str::lines`: split after each `\n`; a line loses its `\n` and then one `\r` before it; no
empty last line. `cur` is the current line, reversed. -/
def linesAux : List Char → List Char → List (List Char)
  | [], cur => if cur = [] then [] else [cur.reverse]
  | c :: rest, cur =>
    if c = '\n' then
      (match cur with
        | '\r' :: cur' => cur'.reverse
        | _ => cur.reverse) :: linesAux rest []
    else linesAux rest (c :: cur)

def lines (s : List Char) : List (List Char) := linesAux s []

/-- `str::split_whitespace().count()`. `inWord`: the previous char was not whitespace. -/
def wordcountAux : Bool → List Char → Nat
  | _, [] => 0
  | inWord, c :: cs =>
    if isWhitespace c then wordcountAux false cs
    else (if inWord then 0 else 1) + wordcountAux true cs

def wordcount (s : List Char) : Nat := wordcountAux false s

/-- `filters::title`. -/
def titleAux (P : Params) : Bool → List Char → List Char
  | _, [] => []
  | cap, c :: rest =>
    if isAsciiPunct c || isWhitespace c then c :: titleAux P (if c ≠ '\'' then true else cap) rest
    else if cap then P.upperChar c ++ titleAux P false rest
    else P.lowerChar c ++ titleAux P false rest

def title (P : Params) (s : List Char) : List Char := titleAux P true s

/-- `filters::capitalize`. -/
def capitalize (P : Params) : List Char → List Char
  | [] => []
  | c :: rest => P.upperChar c ++ P.lowerStr rest

/-- `filters::truncate` (feature `unicode` off): `char_indices().nth(length)`. -/
def truncate (length : Nat) (end_ : List Char) (s : List Char) : List Char :=
  if length < s.length then s.take length ++ end_ else s

/-- `filters::indent`. -/
def indentLines (ind : List Char) (blank : Bool) : List (List Char) → List Char
  | [] => []
  | l :: rest => '\n' :: ((if l ≠ [] ∨ blank then ind else []) ++ l ++ indentLines ind blank rest)

def indent (width : Nat) (first blank : Bool) (s : List Char) : List Char :=
  let ind := List.replicate (min width 1000) ' '
  let body := match lines s with
    | [] => []
    | l :: rest => (if first then ind else []) ++ l ++ indentLines ind blank rest
  body ++ (if s.getLast? = some '\n' then ['\n'] else [])

/-! ### numbers -/

/-- `char::to_digit(radix)`. -/
def toDigit (c : Char) (radix : Nat) : Option Nat :=
  let n := c.toNat
  let d := if 48 ≤ n ∧ n ≤ 57 then some (n - 48)
    else if 97 ≤ n ∧ n ≤ 122 then some (n - 97 + 10)
    else if 65 ≤ n ∧ n ≤ 90 then some (n - 65 + 10)
    else none
  match d with
  | some v => if v < radix then some v else none
  | none => none

def digitsVal (radix : Nat) : List Char → Nat → Option Nat
  | [], acc => some acc
  | c :: cs, acc =>
    match toDigit c radix with
    | some d => digitsVal radix cs (acc * radix + d)
    | none => none

/-- `i128::from_str_radix`: optional sign, at least one digit, exact value must fit. -/
def fromStrRadix (s : List Char) (radix : Nat) : Option Int :=
  let (neg, ds) := match s with
    | '-' :: r => (true, r)
    | '+' :: r => (false, r)
    | r => (false, r)
  if ds = [] then none
  else match digitsVal radix ds 0 with
    | some m =>
      let v : Int := if neg then -(m : Int) else (m : Int)
      if inI128 v then some v else none
    | none => none

/-- `Number::as_integer` on a float. -/
def floatAsInteger (x : F64) : Option Int :=
  match floatIntegral x with
  | .int n => if I128_MIN ≤ n ∧ n < (2:Int)^127 then some n else none
  | _ => none

/-- `Value::is_truthy`. -/
def truthy : Value → Bool
  | .undef | .none => false
  | .bool b => b
  | .u64 n | .u128 n => n != 0
  | .i64 n | .i128 n => n != 0
  | .f64 x => !x.isZero
  | .arr xs => !xs.isEmpty
  | .bytes bs => !bs.isEmpty
  | .str _ s => !s.isEmpty
  | .map es => !es.isEmpty

/-- `format!("{value}")` for the kinds whose text the model defines (strings, booleans,
integers, none / undefined); floats, arrays, maps and bytes are left to C01/C12's printers. -/
def display : Value → Option (List Char)
  | .str _ s => some s
  | .bool b => some (if b then "true".toList else "false".toList)
  | .u64 n | .u128 n => some (toString n).toList
  | .i64 n | .i128 n => some (toString n).toList
  | .undef | .none => some []
  | _ => none

/-! ### filters -/

def fInt (P : Params) (v : Value) (kw : Kwargs) : Outcome :=
  ofExcept (kwGet (intFromValue 0 U32_MAX') kw "base") fun b =>
  let base := b.getD 10
  if ¬ (2 ≤ base ∧ base ≤ 36) then .err .msg else
  let handleF64 (x : F64) : Outcome :=
    match floatAsInteger x with
    | some n => .ok (.i128 n)
    | none => .err .msg
  match v with
  | .str _ s0 =>
    let s := trimWs s0
    let s := if base = 2 then trimStartMatches ['0', 'b'] s
      else if base = 8 then trimStartMatches ['0', 'o'] s
      else if base = 16 then trimStartMatches ['0', 'x'] s
      else s
    match fromStrRadix s base.toNat with
    | some n => .ok (.i128 n)
    | none =>
      if s.contains '.' then
        match P.parseF64 s with
        | some x => handleF64 x
        | none => .err .msg
      else .err .msg
  | .u64 _ =>
    -- `val.as_i128().unwrap() as u64`
    match v.asI128 with
    | some n => .ok (.u64 (n % 2^64).toNat)
    | none => .panic "filters.rs:331"
  | .i64 _ =>
    match v.asI128 with
    | some n => .ok (.i128 n)
    | none => .panic "filters.rs:335"
  | .i128 _ =>
    match v.asI128 with
    | some n => .ok (.i128 n)
    | none => .panic "filters.rs:339"
  | .u128 _ => .ok v
  | .f64 x => handleF64 x
  | _ => .err .msg

def fFloat (P : Params) (v : Value) : Outcome :=
  match v with
  | .str _ s =>
    match P.parseF64 (trimWs s) with
    | some x => .ok (.f64 x)
    | none => .err .msg
  | _ =>
    match v.asNumber with
    | some n => .ok (.f64 n.toFloat)
    | none => .err .msg

def fAbs (v : Value) : Outcome :=
  match v with
  | .u64 _ | .u128 _ => .ok v
  | .f64 x => .ok (.f64 x.absF)
  | .i64 _ =>
    -- `val.as_i128().unwrap() as i64`, `checked_abs`, else `(v as i128).abs()`
    match v.asI128 with
    | some n =>
      if n = I64_MIN then .ok (.i128 (-n)) else .ok (.i64 (if n < 0 then -n else n))
    | none => .panic "filters.rs:410"
  | .i128 _ =>
    match v.asI128 with
    | some n => if n = I128_MIN then .err .msg else .ok (.i128 (if n < 0 then -n else n))
    | none => .panic "filters.rs:417"
  | _ => .err .msg

/-- `filters::round`; `x` is the receiver already converted to `f64`.  `10.0_f64.powi(precision)`
is a normal float exactly for `-307 ≤ precision ≤ 308` (else `inf`, `0` or subnormal: the
`!multiplier.is_normal()` error of the F15 fix, which comes first).  Then
`match (method, scaled)`: a method other than `ceil` / `floor` is an error for every value;
`scaled = None` (`multiplier * val` not finite) gives the value back.  With `precision == 0` the
multiplier is `1.0` and `scaled` is `val` when finite.  Other precisions go through two float
roundings which no property fixes to the bit: left to the harness's tolerance oracle
(`unmodelled`, once the method is known to be valid). -/
def fRound (x : F64) (kw : Kwargs) : Outcome :=
  ofExcept (kwGet strFromValue kw "method") fun method =>
  ofExcept (kwGet (intFromValue I32_MIN I32_MAX) kw "precision") fun prec =>
  let p := prec.getD 0
  if p ≠ 0 ∧ ¬ (-307 ≤ p ∧ p ≤ 308) then .err .msg
  else match method with
    | none =>
      if p ≠ 0 then .unmodelled
      else if !x.isFinite then .ok (.f64 x) else .ok (.f64 x.roundF)
    | some m =>
      if m = "ceil".toList then
        (if p ≠ 0 then .unmodelled else if !x.isFinite then .ok (.f64 x) else .ok (.f64 x.ceilF))
      else if m = "floor".toList then
        (if p ≠ 0 then .unmodelled else if !x.isFinite then .ok (.f64 x) else .ok (.f64 x.floorF))
      else .err .msg

def fDefault (v : Value) (kw : Kwargs) : Outcome :=
  ofExcept (kwMust (fun x => .ok x) kw "value") fun d =>
  ofExcept (kwGet boolFromValue kw "boolean") fun b =>
  if b.getD false then (if truthy v then .ok v else .ok d)
  else match v with
    | .undef => .ok d
    | _ => .ok v

def fPluralize (v : Value) (kw : Kwargs) : Outcome :=
  ofExcept (kwGet strFromValue kw "singular") fun sg =>
  ofExcept (kwGet strFromValue kw "plural") fun pl =>
  match v.asI128 with
  | some n => .ok (strV (if n = 1 ∨ n = -1 then sg.getD [] else pl.getD ['s']))
  | none => .err .msg

def fTrimWith (ws : List Char → List Char) (pt : List Char → List Char → List Char)
    (s : List Char) (kw : Kwargs) : Outcome :=
  ofExcept (kwGet strFromValue kw "pat") fun pat =>
  match pat with
  | some p => .ok (strV (pt p s))
  | none => .ok (strV (ws s))

def fReplace (s : List Char) (kw : Kwargs) : Outcome :=
  ofExcept (kwMust strFromValue kw "from") fun frm =>
  ofExcept (kwMust strFromValue kw "to") fun to =>
  .ok (strV (replace frm to s))

def ellipsis : List Char := [Char.ofNat 0x2026]

def fTruncate (s : List Char) (kw : Kwargs) : Outcome :=
  ofExcept (kwMust (intFromValue 0 USIZE_MAX) kw "length") fun len =>
  ofExcept (kwGet strFromValue kw "end") fun e =>
  .ok (strV (truncate len.toNat (e.getD ellipsis) s))

def fIndent (s : List Char) (kw : Kwargs) : Outcome :=
  ofExcept (kwGet (intFromValue 0 USIZE_MAX) kw "width") fun w =>
  ofExcept (kwGet boolFromValue kw "first") fun f =>
  ofExcept (kwGet boolFromValue kw "blank") fun b =>
  .ok (strV (indent ((w.getD 4).toNat) (f.getD false) (b.getD false) s))

def lookupStr (es : List (Key × Value)) (k : List Char) : Option Value :=
  match es with
  | [] => none
  | (.str s, v) :: rest => if s = k then some v else lookupStr rest k
  | _ :: rest => lookupStr rest k

def fGet (es : List (Key × Value)) (kw : Kwargs) : Outcome :=
  ofExcept (kwMust strFromValue kw "key") fun key =>
  ofExcept (kwGet (fun x => .ok x) kw "default") fun d =>
  match lookupStr es key with
  | some v => .ok v
  | none => match d with
    | some dv => .ok dv
    | none => .err .msg

/-- One registered built-in: the typed receiver that guards the call (`Arg::from_value(arg)?`
in `StoredFilter::new` / `StoredTest::new`) and the body. -/
structure Builtin where
  recv : ArgTy
  body : Value → Kwargs → Outcome

/-- `StoredFilter::call` / `StoredTest::call`: receiver conversion first, then the body. -/
def Builtin.apply (b : Builtin) (v : Value) (kw : Kwargs) : Outcome :=
  match b.recv.check v with
  | .error e => .err e
  | .ok () => b.body v kw

def onStr (f : List Char → Kwargs → Outcome) : Value → Kwargs → Outcome
  | .str _ s, kw => f s kw
  | _, _ => .panic "receiver conversion"     -- unreachable behind `recv := .str`

def strFilter (f : List Char → List Char) : Builtin :=
  { recv := .str, body := onStr fun s _ => .ok (strV (f s)) }

/-- body of a filter the model does not define, after the keyword arguments it extracts
unconditionally -/
def afterKw (checks : List (Kwargs → Except BErr Unit)) : Value → Kwargs → Outcome :=
  fun _ kw => match checks.findSome? (fun c => match c kw with | .error e => some e | .ok _ => none) with
    | some e => .err e
    | none => .unmodelled

def mustStr (name : String) : Kwargs → Except BErr Unit := fun kw => (kwMust strFromValue kw name).map fun _ => ()
def getStr (name : String) : Kwargs → Except BErr Unit := fun kw => (kwGet strFromValue kw name).map fun _ => ()

def filterTable (P : Params) : List (String × Builtin) := [
  ("safe", { recv := .cowStr, body := fun v _ => match display v with
      | some s => .ok (.str true s) | none => .unmodelled }),
  ("default", { recv := .value, body := fDefault }),
  ("upper", strFilter P.upperStr),
  ("lower", strFilter P.lowerStr),
  ("wordcount", { recv := .str, body := onStr fun s _ => .ok (.u64 (wordcount s)) }),
  ("escape_html", strFilter escapeHtml),
  ("escape_xml", strFilter escapeXml),
  ("newlines_to_br", strFilter newlinesToBr),
  ("pluralize", { recv := .value, body := fPluralize }),
  ("trim", { recv := .str, body := onStr (fTrimWith trimWs fun p s => trimEndMatches p (trimStartMatches p s)) }),
  ("trim_start", { recv := .str, body := onStr (fTrimWith trimStartWs trimStartMatches) }),
  ("trim_end", { recv := .str, body := onStr (fTrimWith trimEndWs trimEndMatches) }),
  ("replace", { recv := .str, body := onStr fReplace }),
  ("capitalize", strFilter (capitalize P)),
  ("title", strFilter (title P)),
  ("truncate", { recv := .str, body := onStr fTruncate }),
  ("indent", { recv := .str, body := onStr fIndent }),
  ("str", { recv := .value, body := fun v _ => match display v with
      | some s => .ok (strV s) | none => .unmodelled }),
  ("int", { recv := .value, body := fInt P }),
  ("float", { recv := .value, body := fun v _ => fFloat P v }),
  ("length", { recv := .value, body := afterKw [] }),
  ("reverse", { recv := .value, body := afterKw [] }),
  ("split", { recv := .str, body := afterKw [mustStr "pat"] }),
  ("abs", { recv := .value, body := fun v _ => fAbs v }),
  ("round", { recv := .f64, body := fun v kw => match f64FromValue v with
      | .ok x => fRound x kw | .error _ => .panic "receiver conversion" }),
  ("first", { recv := .slice, body := afterKw [] }),
  ("last", { recv := .slice, body := afterKw [] }),
  ("nth", { recv := .slice, body := afterKw [fun kw => (kwMust (intFromValue 0 USIZE_MAX) kw "n").map fun _ => ()] }),
  ("join", { recv := .slice, body := afterKw [getStr "sep"] }),
  -- `sort` and `group_by` return before looking at their arguments when the array is empty
  ("sort", { recv := .slice, body := fun v kw => match v with
      | .arr [] => .unmodelled | _ => afterKw [getStr "attribute"] v kw }),
  ("unique", { recv := .slice, body := afterKw [] }),
  ("get", { recv := .map, body := fun v kw => match v with
      | .map es => fGet es kw | _ => .panic "receiver conversion" }),
  ("values", { recv := .map, body := afterKw [] }),
  ("keys", { recv := .map, body := afterKw [] }),
  ("pairs", { recv := .map, body := afterKw [] }),
  ("group_by", { recv := .slice, body := fun v kw => match v with
      | .arr [] => .unmodelled | _ => afterKw [mustStr "attribute"] v kw })
]

/-! ### tests -/

def boolTest (f : Value → Bool) : Builtin := { recv := .valueRef, body := fun v _ => .ok (.bool (f v)) }

def isStr : Value → Bool | .str .. => true | _ => false
def isMap : Value → Bool | .map _ => true | _ => false
def isBool : Value → Bool | .bool _ => true | _ => false
def isArr : Value → Bool | .arr _ => true | _ => false
def isBytes : Value → Bool | .bytes _ => true | _ => false
def isNone : Value → Bool | .none => true | _ => false
def isUndef : Value → Bool | .undef => true | _ => false
def isF64 : Value → Bool | .f64 _ => true | _ => false

def onNumber (f : Number → Kwargs → Outcome) : Value → Kwargs → Outcome :=
  fun v kw => match numberFromValue v with
    | .ok n => f n kw
    | .error _ => .panic "receiver conversion"

/-- `haystack.contains(needle)` / `starts_with` / `ends_with` on strings. -/
def isInfixOf (needle : List Char) : List Char → Bool
  | [] => needle.isEmpty
  | c :: cs => (stripPrefix? needle (c :: cs)).isSome || isInfixOf needle cs

def tDivisibleBy (n : Number) (kw : Kwargs) : Outcome :=
  ofExcept (kwMust (intFromValue I128_MIN I128_MAX) kw "divisor") fun d =>
  if d = 0 then .ok (.bool false)
  else match n with
    | .int u => match checkedRemEuclid u d with
      | some r => .ok (.bool (r == 0))
      | none => .ok (.bool true)
    | .float _ => .err .msg

def tContaining (v : Value) (kw : Kwargs) : Outcome :=
  ofExcept (kwMust (fun x => .ok x) kw "pat") fun pat =>
  match v with
  | .str _ s => ofExcept (strFromValue pat) fun p => .ok (.bool (isInfixOf p s))
  | .arr _ => .unmodelled          -- `Vec::contains` with `Value`'s `PartialEq` (C15)
  | .map es => match pat with
    | .str _ p => .ok (.bool (lookupStr es p).isSome)
    | _ => .unmodelled             -- `as_key` + key equality across integer kinds (C15)
  | _ => .err .msg

def tStartingWith (s : List Char) (kw : Kwargs) : Outcome :=
  ofExcept (kwMust strFromValue kw "pat") fun p => .ok (.bool (stripPrefix? p s).isSome)

def tEndingWith (s : List Char) (kw : Kwargs) : Outcome :=
  ofExcept (kwMust strFromValue kw "pat") fun p => .ok (.bool (stripPrefix? p.reverse s.reverse).isSome)

def testTable : List (String × Builtin) := [
  ("string", boolTest isStr),
  ("number", boolTest Value.isNumber),
  ("map", boolTest isMap),
  ("bool", boolTest isBool),
  ("array", boolTest isArr),
  ("integer", boolTest fun v => v.isNumber && !isF64 v),
  ("float", boolTest isF64),
  ("none", boolTest isNone),
  ("iterable", boolTest fun v => isMap v || isArr v || isStr v || isBytes v),
  ("defined", boolTest fun v => !isUndef v),
  ("undefined", boolTest isUndef),
  ("odd", { recv := .number, body := onNumber fun n _ => match n with
      | .int u => .ok (.bool (Int.tmod u 2 != 0)) | .float _ => .err .msg }),
  ("even", { recv := .number, body := onNumber fun n _ => match n with
      | .int u => .ok (.bool (Int.tmod u 2 == 0)) | .float _ => .err .msg }),
  ("divisible_by", { recv := .number, body := onNumber tDivisibleBy }),
  ("starting_with", { recv := .str, body := onStr tStartingWith }),
  ("ending_with", { recv := .str, body := onStr tEndingWith }),
  ("containing", { recv := .valueRef, body := tContaining })
]

/-! ### functions -/

/-- Rust `checked_sub` / `checked_add` / `checked_neg` on i128. -/
def chk (r : Int) : Option Int := checkedI128 r

/-- `start + i * step_by` for `i` in `0..len`, with Rust's (unchecked, panicking in debug)
`+` and `*` made explicit: `none` = an intermediate result left i128. -/
def rangeValues (start step : Int) : Nat → Nat → Option (List Int)
  | 0, _ => some []
  | n + 1, i =>
    match chk ((i : Int) * step) with
    | none => none
    | some m => match chk (start + m) with
      | none => none
      | some x => (rangeValues start step n (i + 1)).map (x :: ·)

/-- `functions::range` after argument extraction. -/
def rangeCore (maxLen : Nat) (start end_ step : Int) : Outcome :=
  if start > end_ ∧ step > 0 then .err .msg
  else if step = 0 then .err .msg
  else
    let len : Option Int :=
      if step > 0 then
        match chk (end_ - start) with
        | none => none
        | some span => match chk (span + (step - 1)) with
          | none => none
          | some t => some (Int.tdiv t step)
      else if start ≤ end_ then some 0
      else
        match chk (-step) with
        | none => none
        | some st => match chk (start - end_) with
          | none => none
          | some span => match chk (span + (st - 1)) with
            | none => none
            | some t => some (Int.tdiv t st)
    match len with
    | none => .err .msg
    | some len =>
      if len > (maxLen : Int) then .err .msg
      else match rangeValues start step len.toNat 0 with
        | some vs => .ok (.arr (vs.map Value.i128))
        | none => .panic "functions.rs:102 start + i * step_by overflows"

def fnRange (maxLen : Nat) (kw : Kwargs) : Outcome :=
  ofExcept (kwGet (intFromValue I128_MIN I128_MAX) kw "start") fun s =>
  ofExcept (kwMust (intFromValue I128_MIN I128_MAX) kw "end") fun e =>
  ofExcept (kwGet (intFromValue I128_MIN I128_MAX) kw "step_by") fun st =>
  rangeCore maxLen (s.getD 0) e (st.getD 1)

def fnThrow (kw : Kwargs) : Outcome :=
  ofExcept (kwMust strFromValue kw "message") fun _ => .err .msg

def functionTable (maxLen : Nat) : List (String × Builtin) := [
  ("range", { recv := .none, body := fun _ kw => fnRange maxLen kw }),
  ("throw", { recv := .none, body := fun _ kw => fnThrow kw })
]

def lookup (t : List (String × Builtin)) (name : String) : Option Builtin :=
  match t with
  | [] => none
  | (n, b) :: rest => if n = name then some b else lookup rest name

/-- The signature the model gives a built-in, in the shape of the generated table. -/
structure KwSig where
  name : String
  ty : ArgTy
  required : Bool

end Builtins
end Tera
