/-
The built-in filters, tests and functions of the whole-engine model, INSIDE Lean (the driver
Driver/Pipeline.lean runs exactly these): the dispatch of p2_vm's Driver/Vm.lean over the models
of C17 (Model/Builtins.lean: `filterTable`, `testTable`, `functionTable`) with the collection
filters of C16 (Model/CollFilters.lean: `length reverse first last nth join keys values pairs split
sort unique group_by`), the `containing` test on arrays and on maps with a non-text pattern
(Model/Lookup.lean, C15: `Value.isContaining`) and `safe` / `str` written out.  The hasher of the
C15 / C16 models is the constant one (`hasher`): `C15` proves that no lookup depends on it.
Unicode case mapping (`str::to_uppercase`, `str::to_lowercase`: std, trusted) is modelled on ASCII,
Latin-1 and a few blocks without cased letters (`upperCharU`, `lowerCharU`; every code point of
that domain is compared with the real engine by cpipe's `case.*` stream); `upper` / `lower` of any
other text, `capitalize` / `title` of non-ASCII text and float parsing (`float`, `int` of a text
with a `.`) answer `unmodelled`.  A receiver whose scalar payload is outside the range of its kind
(`Value.scalarWF`: no Rust `Value` can be that) answers `unmodelled` too: it is the hypothesis of
`C17.builtins_never_panic`.

`Pipeline.builtinsNoPanic_model` (Lemmas/PipelineBuiltins.lean): none of them panics, on any
receiver and any keyword arguments — the `BuiltinsNoPanic` hypothesis of P5 discharged for this
instance.  The float printer `fmtF64` (shortest round-trip digits, a `partial def` of the driver)
and the float arithmetic `FloatOps` stay parameters; no built-in outcome depends on a panic of
theirs (they are total functions).
-/
import TeraModel.Model.Vm
import TeraModel.Model.Builtins
import TeraModel.Model.Pipeline
import TeraModel.Model.CollFilters
import TeraModel.Generated.Builtins
namespace Tera.Pipeline.BuiltinsM
open Tera Tera.Vm

instance (v : Value) : Decidable v.scalarWF := by
  cases v <;> simp only [Value.scalarWF] <;> infer_instance

/-- The hasher handed to the map lookups of C15 / C16 (`Map.hashGet`): every key in one bucket.
`C15` (`Map.hashGet_eq_get`) proves that the answer of a lookup is the same for EVERY hasher, so
this choice is no assumption about the real one. -/
def hasher : List HashTok → Nat := fun _ => 0

/-! ### built-ins -/
open Tera.Args Tera.Builtins in
def ofBErr : BErr → CallRes
  | .invalidArg => .errInvalidArg
  | _ => .err

open Tera.Builtins in
def ofOutcome : Builtins.Outcome → CallRes
  | .ok v => .ok v
  | .err e => ofBErr e
  | .panic s => .panic s
  | .unmodelled => .unmodelled

def isAsciiStr (s : List Char) : Bool := s.all fun c => c.toNat < 128
def caseFilters : List String := ["capitalize", "title"]

/-! ### Unicode case mapping (std: `char::to_uppercase` / `char::to_lowercase`, the tables of
UnicodeData.txt and SpecialCasing.txt) on a small domain; `none` = outside the domain -/

/-- blocks in which no code point has a case mapping: General Punctuation, Currency Symbols,
CJK Symbols and Punctuation, Hiragana, Katakana, CJK Unified Ideographs, Specials (U+FFFD, what
a lossy decoding of bytes prints), and the pictograph / emoji blocks U+1F300..U+1FAFF -/
def caselessBlock (n : Nat) : Bool :=
  (0x2000 ≤ n && n ≤ 0x206F) || (0x20A0 ≤ n && n ≤ 0x20CF) || (0x3000 ≤ n && n ≤ 0x30FF) ||
  (0x4E00 ≤ n && n ≤ 0x9FFF) || (0xFFF0 ≤ n && n ≤ 0xFFFF) || (0x1F300 ≤ n && n ≤ 0x1FAFF)

/-- `char::to_uppercase` -/
def upperCharU (c : Char) : Option (List Char) :=
  let n := c.toNat
  if n < 0x80 then some [c.toUpper]
  else if n < 0x100 then
    if n = 0xB5 then some [Char.ofNat 0x39C]                      -- MICRO SIGN -> GREEK CAPITAL MU
    else if n = 0xDF then some ['S', 'S']                          -- SHARP S (SpecialCasing)
    else if n = 0xFF then some [Char.ofNat 0x178]                  -- y WITH DIAERESIS
    else if 0xE0 ≤ n && n ≠ 0xF7 then some [Char.ofNat (n - 0x20)] -- a-grave .. thorn, not DIVISION SIGN
    else some [c]
  else if caselessBlock n then some [c]
  else none

/-- `char::to_lowercase` -/
def lowerCharU (c : Char) : Option (List Char) :=
  let n := c.toNat
  if n < 0x80 then some [c.toLower]
  else if n < 0x100 then
    if 0xC0 ≤ n && n ≤ 0xDE && n ≠ 0xD7 then some [Char.ofNat (n + 0x20)]  -- A-grave .. THORN, not MULTIPLICATION SIGN
    else some [c]
  else if caselessBlock n then some [c]
  else none

/-- is every character of the text in the domain of the two tables -/
def caseModelled (s : List Char) : Bool := s.all fun c => (upperCharU c).isSome

/-- `str::to_uppercase` / `str::to_lowercase` are the character mappings concatenated (the one
context-sensitive rule of std, the final sigma, concerns U+03A3 only: outside the domain) -/
def caseParams : Builtins.Params where
  upperChar c := (upperCharU c).getD [c]
  lowerChar c := (lowerCharU c).getD [c]
  upperStr s := s.flatMap fun c => (upperCharU c).getD [c]
  lowerStr s := s.flatMap fun c => (lowerCharU c).getD [c]
  parseF64 _ := none



open Tera.Args Tera.Builtins Coll in
/-- `tera.filters[name].call(v, kw, state)` -/
def callFilterM (fmtF64 : F64 → List Char) (name : String) (v : Value) (kw : List (String × Value)) : CallRes :=
  let fmtV (v : Value) : List Char := v.format fmtF64
  match lookup (filterTable caseParams) name with
  | none => .unmodelled
  | some b =>
    if ¬ v.scalarWF then .unmodelled else
    match b.recv.check v with
    | .error e => ofBErr e
    | .ok () =>
      let strKw (n : String) : Except BErr (Option (List Char)) := kwGet strFromValue kw n
      match name, v with
      | "safe", .str _ s => .ok (.str true s)
      | "safe", v => .ok (.str true (fmtV v))
      | "str", v => .ok (.str false (fmtV v))
      | "length", v => match len v with | some n => .ok (.u64 n) | none => .err
      | "reverse", v => match reverse v with | some r => .ok r | none => .err
      | "first", .arr xs => .ok (first xs)
      | "last", .arr xs => .ok (last xs)
      | "nth", .arr xs =>
        match kwMust (intFromValue 0 Args.USIZE_MAX) kw "n" with
        | .ok n => .ok (nth xs n.toNat)
        | .error e => ofBErr e
      | "join", .arr xs =>
        match strKw "sep" with
        | .ok sep => .ok (.str false (join fmtV xs (sep.getD [])))
        | .error e => ofBErr e
      | "keys", .map m => .ok (.arr (keys m))
      | "values", .map m => .ok (.arr (values m))
      | "pairs", .map m => .ok (.arr (pairs m))
      | "split", .str _ s =>
        match kwMust strFromValue kw "pat" with
        | .ok pat => .ok (.arr (split s pat))
        | .error e => ofBErr e
      | "unique", .arr xs => .ok (.arr (unique xs))
      -- `sort` and `group_by` return before looking at their arguments when the array is empty
      | "sort", .arr xs =>
        if xs.isEmpty then .ok (.arr []) else
        match strKw "attribute" with
        | .error e => ofBErr e
        | .ok attr =>
          match sort hasher xs attr with
          | .ok out => .ok (.arr out)
          | .missingAttr => .err
          | .notComparable => .err
      | "group_by", .arr xs =>
        if xs.isEmpty then .ok (.map []) else
        match kwMust strFromValue kw "attribute" with
        | .error e => ofBErr e
        | .ok attr =>
          match groupBy hasher xs attr with
          | .ok g => .ok (.map (g.map fun e => (e.1, .arr e.2)))
          | .missingAttr => .err
          | .badKey => .err
      | name, v =>
        let r := b.body v kw
        match v with
        | .str _ s =>
          if caseFilters.contains name && !isAsciiStr s then .unmodelled
          else if (name == "upper" || name == "lower") && !caseModelled s then .unmodelled
          else if name == "float" then .unmodelled
          else if name == "int" && s.contains '.' then
            (match r with | .err .msg => .unmodelled | o => ofOutcome o)
          else ofOutcome r
        | _ => ofOutcome r

/-- tests.rs `is_containing` where C17's `tContaining` stops (an array receiver, a map receiver
with a pattern that is not a text): the model of C15 -/
def containingM (v pat : Value) : CallRes :=
  match Value.isContaining hasher v pat with
  | .ok b => .ok (.bool b)
  | .badPat => .err
  | .notContainer => .err

open Tera.Args Tera.Builtins in
def callTestM (name : String) (v : Value) (kw : List (String × Value)) : CallRes :=
  match lookup testTable name with
  | none => .unmodelled
  | some b =>
    if ¬ v.scalarWF then .unmodelled else
    match b.apply v kw with
    | .unmodelled =>
      if name == "containing" then
        match kwMust (fun x => .ok x) kw "pat" with
        | .ok pat => containingM v pat
        | .error e => ofBErr e
      else .unmodelled
    | o => ofOutcome o

open Tera.Builtins in
def callFunctionM (name : String) (kw : List (String × Value)) : CallRes :=
  match lookup (functionTable Generated.Builtins.MAX_RANGE_LEN) name with
  | none => .unmodelled
  | some b => ofOutcome (b.apply .undef kw)


/-- the built-in parameters of the composed model, for a float printer and float arithmetic -/
def model (fmtF64 : F64 → List Char) (F : FloatOps) : Builtins :=
  { callFilter := callFilterM fmtF64, filterIsSafe := fun _ => false, callTest := callTestM,
    callFunction := callFunctionM, functionIsSafe := fun _ => false, F := F, fmtF64 := fmtF64 }

end Tera.Pipeline.BuiltinsM
