/-
The built-in filters, tests and functions of the whole-engine model, INSIDE Lean (the driver
Driver/Pipeline.lean runs exactly these): the dispatch of p2_vm's Driver/Vm.lean over the models
of C17 (Model/Builtins.lean: `filterTable`, `testTable`, `functionTable`) with the collection
filters `length reverse first last nth join keys values pairs split` and `safe` / `str` written
out (Model/CollFilters.lean cannot be imported next to Model/EvalPrims.lean); `sort`, `unique`,
`group_by`, Unicode case mapping of non-ASCII text, float parsing (`float`, `int` of a text with a
`.`) answer `unmodelled`.  A receiver whose scalar payload is outside the range of its kind
(`Value.scalarWF`: no Rust `Value` can be that) answers `unmodelled` too: it is the hypothesis of
`C17.builtins_never_panic`.

`Pipeline.builtinsNoPanic_model` (Lemmas/PipelineBuiltins.lean): none of them panics, on any
receiver and any keyword arguments — the `BuiltinsNoPanic` hypothesis of P5 discharged for this
instance.  The float printer `fmtF64` (shortest round-trip digits, a `partial def` of the driver)
and the float arithmetic `FloatOps` stay parameters; no built-in outcome depends on a panic of
theirs (they are total functions).
-/
import TeraModel.Model.Vm
import TeraModel.Model.Builtins
import TeraModel.Model.Pipeline
import TeraModel.Generated.Builtins
namespace Tera.Pipeline.BuiltinsM
open Tera Tera.Vm

instance (v : Value) : Decidable v.scalarWF := by
  cases v <;> simp only [Value.scalarWF] <;> infer_instance

/-! ### collection filters (filters.rs; the models of C16 live in Model/CollFilters.lean, which
cannot be imported next to Model/EvalPrims.lean: both define `Value.asKey`) -/
namespace Coll
def first (val : List Value) : Value := val.head?.getD .none
def last (val : List Value) : Value := val.getLast?.getD .none
def nth (val : List Value) (n : Nat) : Value := (val[n]?).getD .none
def len : Value → Option Nat
  | .map m => some m.length | .arr xs => some xs.length | .bytes b => some b.length
  | .str _ s => some s.length | _ => none
def reverse : Value → Option Value
  | .arr xs => some (.arr xs.reverse)
  | .bytes b => some (.arr (b.reverse.map fun n => .u64 n))
  | .str _ s => some (.str false s.reverse)
  | _ => none
def keys (m : List (Key × Value)) : List Value := (sortEntries m).map fun e => keyToValue e.1
def values (m : List (Key × Value)) : List Value := (sortEntries m).map fun e => e.2
def pairs (m : List (Key × Value)) : List Value := (sortEntries m).map fun e => .arr [keyToValue e.1, e.2]
def joinStrs (sep : List Char) : List (List Char) → List Char
  | [] => []
  | [s] => s
  | s :: rest => s ++ sep ++ joinStrs sep rest
def join (fmt : Value → List Char) (val : List Value) (sep : List Char) : List Char :=
  joinStrs sep (val.map fmt)
def splitGo (pat : List Char) : List Char → List Char → Nat → List (List Char)
  | [], acc, _ => [acc.reverse]
  | _ :: cs, acc, skip + 1 => splitGo pat cs acc skip
  | c :: cs, acc, 0 =>
    if pat.isPrefixOf (c :: cs) then acc.reverse :: splitGo pat cs [] (pat.length - 1)
    else splitGo pat cs (c :: acc) 0
def splitStr (s pat : List Char) : List (List Char) :=
  if pat.isEmpty then [] :: (s.map fun c => [c]) ++ [[]]
  else splitGo pat s [] 0
def split (s pat : List Char) : List Value := (splitStr s pat).map fun p => .str false p
end Coll

/-! ### built-ins -/
open Tera.Args Tera.Builtins in
def ofBErr : BErr → CallRes
  | .invalidArg => .errInvalidArg
  | _ => .err

open Tera.Builtins in
def ofOutcome : Builtins.Outcome → CallRes
  | .ok v => .ok v
  | .err e => ofBErr e
  | .panic s => .panic s
  | .unmodelled => .unmodelled

def isAsciiStr (s : List Char) : Bool := s.all fun c => c.toNat < 128
def caseFilters : List String := ["upper", "lower", "capitalize", "title"]



open Tera.Args Tera.Builtins Coll in
/-- `tera.filters[name].call(v, kw, state)` -/
def callFilterM (fmtF64 : F64 → List Char) (name : String) (v : Value) (kw : List (String × Value)) : CallRes :=
  let fmtV (v : Value) : List Char := v.format fmtF64
  match lookup (filterTable asciiParams) name with
  | none => .unmodelled
  | some b =>
    if ¬ v.scalarWF then .unmodelled else
    match b.recv.check v with
    | .error e => ofBErr e
    | .ok () =>
      let strKw (n : String) : Except BErr (Option (List Char)) := kwGet strFromValue kw n
      match name, v with
      | "safe", .str _ s => .ok (.str true s)
      | "safe", v => .ok (.str true (fmtV v))
      | "str", v => .ok (.str false (fmtV v))
      | "length", v => match len v with | some n => .ok (.u64 n) | none => .err
      | "reverse", v => match reverse v with | some r => .ok r | none => .err
      | "first", .arr xs => .ok (first xs)
      | "last", .arr xs => .ok (last xs)
      | "nth", .arr xs =>
        match kwMust (intFromValue 0 USIZE_MAX) kw "n" with
        | .ok n => .ok (nth xs n.toNat)
        | .error e => ofBErr e
      | "join", .arr xs =>
        match strKw "sep" with
        | .ok sep => .ok (.str false (join fmtV xs (sep.getD [])))
        | .error e => ofBErr e
      | "keys", .map m => .ok (.arr (keys m))
      | "values", .map m => .ok (.arr (values m))
      | "pairs", .map m => .ok (.arr (pairs m))
      | "split", .str _ s =>
        match kwMust strFromValue kw "pat" with
        | .ok pat => .ok (.arr (split s pat))
        | .error e => ofBErr e
      | "unique", .arr _ => .unmodelled
      | "sort", .arr _ => .unmodelled
      | "group_by", .arr _ => .unmodelled
      | name, v =>
        let r := b.body v kw
        match v with
        | .str _ s =>
          if caseFilters.contains name && !isAsciiStr s then .unmodelled
          else if name == "float" then .unmodelled
          else if name == "int" && s.contains '.' then
            (match r with | .err .msg => .unmodelled | o => ofOutcome o)
          else ofOutcome r
        | _ => ofOutcome r

open Tera.Builtins in
def callTestM (name : String) (v : Value) (kw : List (String × Value)) : CallRes :=
  match lookup testTable name with
  | none => .unmodelled
  | some b => if ¬ v.scalarWF then .unmodelled else ofOutcome (b.apply v kw)

open Tera.Builtins in
def callFunctionM (name : String) (kw : List (String × Value)) : CallRes :=
  match lookup (functionTable Generated.Builtins.MAX_RANGE_LEN) name with
  | none => .unmodelled
  | some b => ofOutcome (b.apply .undef kw)


/-- the built-in parameters of the composed model, for a float printer and float arithmetic -/
def model (fmtF64 : F64 → List Char) (F : FloatOps) : Builtins :=
  { callFilter := callFilterM fmtF64, filterIsSafe := fun _ => false, callTest := callTestM,
    callFunction := callFunctionM, functionIsSafe := fun _ => false, F := F, fmtF64 := fmtF64 }

end Tera.Pipeline.BuiltinsM
