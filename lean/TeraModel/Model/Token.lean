/-
Mirror of `Token` (tera/src/parsing/lexer.rs:63-123) and `Span` (tera/src/utils.rs:52-63).
Text payloads are byte strings (UTF-8).  Operator tokens are grouped under `Token.op`.
-/
import TeraModel.Model.Utf8
namespace Tera

/-- The payload-free tokens of lexer.rs (math, logic, Tera-specific, rest), Rust names. -/
inductive Op where
  | Mul | Div | FloorDiv | Mod | Plus | Minus | Power
  | LessThan | ClosingTagStart | GreaterThan | LessThanOrEqual | GreaterThanOrEqual | Equal | NotEqual
  | Tilde | Pipe | Assign
  | Dot | QuestionMarkDot | QuestionMarkLeftBracket | Comma | Colon | Bang
  | LeftBracket | RightBracket | LeftParen | RightParen | LeftBrace | RightBrace | Spread
  deriving Repr, DecidableEq

inductive Token where
  | content (s : Bytes)
  | rawContent (wsStart : Bool) (s : Bytes) (wsEnd : Bool)
  | variableStart (ws : Bool)
  | variableEnd (ws : Bool)
  | tagStart (ws : Bool)
  | tagEnd (ws : Bool)
  | comment (wsStart wsEnd : Bool)
  | ident (s : Bytes)
  /-- `Token::String`: a string literal that had escapes, unescaped -/
  | string (s : Bytes)
  /-- `Token::Str`: a string literal without escapes (slice of the source) -/
  | str (s : Bytes)
  /-- `Token::Integer(i64)`; the model keeps the (in-range) value as a `Nat` -/
  | integer (v : Nat)
  /-- `Token::Float(f64)`; the model keeps the lexeme (`str::parse::<f64>` is std, not modelled) -/
  | float (lexeme : Bytes)
  | bool (b : Bool)
  | op (o : Op)
  deriving Repr, DecidableEq

namespace Lexer

/-- `utils::Span`: lines 1-based, columns 0-based in chars, `range` in bytes.
(In namespace `Tera.Lexer`: `Tera.Span` is the opaque span tag of Model/Instr.lean.) -/
structure Span where
  startLine : Nat
  startCol : Nat
  endLine : Nat
  endCol : Nat
  rangeStart : Nat
  rangeEnd : Nat
  deriving Repr, DecidableEq

/-- `Span::expand` (utils.rs:88-92). -/
def Span.expand (self other : Span) : Span :=
  { self with endLine := other.endLine, endCol := other.endCol, rangeEnd := other.rangeEnd }

end Lexer

end Tera
