/-
C18 — where rendered bytes go.

Model of the I/O shell of the engine: `std::io::Write::write_all` over an arbitrary writer, and the
places where tera/src/vm/interpreter.rs (`VirtualMachine::interpret`, `render_to`, `render`,
`render_block`, `render_component`, `render_include`) hands bytes to `output` or to a capture
buffer.  Everything else the VM does (the value stack, scopes, loops, expression evaluation) is
abstracted into the *program* below: a program is the tree of output-relevant steps one render
performs, and the only information that can flow back into later steps is the content of a
capture buffer or of a side buffer (`Bytes → Prog` continuations).  There is no constructor that
lets a step look at the writer: `impl Write` offers no way to read.

Mirrors (Rust item → model):
  `Write::write_all` (std)                              → `writeAll`
  `Instruction::WriteText / WriteTop / WritePath`       → `Prog.write` (one `write_all` per chunk;
        `Value::format` and `escape_html` issue several `write_all`s for one instruction)
  `Instruction::Capture / EndCapture`                   → `Prog.capture / endCapture`
  `Instruction::Include` + `render_include`             → `Prog.incl`
  `Instruction::RenderBlock`                            → `Prog.renderBlock`
  `CallFunction("super")`                               → `Prog.callSuper`
  `component!` + `VirtualMachine::render_component`     → `Prog.component`
  `rendering_error!`, `?` on a non-I/O error            → `Prog.fail`
  `VirtualMachine::render_to`                           → `renderTo`
  `VirtualMachine::render / render_block`, `Tera::render_str / render_component`  → `render`
-/
namespace Tera.W

abbrev Bytes := List UInt8

/-! ## Writers -/

/-- Answer of one `Write::write(buf)` call.  `ok n` = `Ok(n)`: the first `n` bytes were accepted
(`n ≤ buf.len()` is the contract of `Write`; the model takes `buf.take n`).  `err` = `Err(e)` with
`e.kind() != Interrupted` (the retry loop of `write_all` on `Interrupted` is not modelled). -/
inductive WriteRes where
  | ok (n : Nat)
  | err
  deriving Repr, DecidableEq

/-- An arbitrary writer: a state machine answering `write` calls.  Nothing is assumed about when
or how it fails. -/
structure Writer (σ : Type) where
  write : σ → Bytes → σ × WriteRes

/-- The user's writer together with ghost history: what it accepted so far, whether it ever
refused (answered `Err` or `Ok(0)`), and how many `write` calls it saw. -/
structure Sink (σ : Type) where
  st : σ
  accepted : Bytes
  failed : Bool
  calls : Nat

def Sink.fresh {σ : Type} (s : σ) : Sink σ := { st := s, accepted := [], failed := false, calls := 0 }

/-- `std::io::Write::write_all`:
```
while !buf.is_empty() {
    match self.write(buf) {
        Ok(0) => return Err(WriteZero),
        Ok(n) => buf = &buf[n..],
        Err(e) => return Err(e),
    }
}
Ok(())
```
The Bool is `true` for `Ok(())`.  The loop is bounded by `buf.len()` because every iteration
that continues consumed at least one byte (`fuel` = length of the buffer, never exhausted). -/
def writeAllAux {σ : Type} (W : Writer σ) : Nat → Sink σ → Bytes → Sink σ × Bool
  | _, s, [] => (s, true)
  | 0, s, _ :: _ => (s, true)
  | fuel + 1, s, b :: bs =>
    match W.write s.st (b :: bs) with
    | (st', .ok 0) => ({ s with st := st', failed := true, calls := s.calls + 1 }, false)
    | (st', .ok (n + 1)) =>
      writeAllAux W fuel
        { st := st', accepted := s.accepted ++ (b :: bs).take (n + 1), failed := s.failed,
          calls := s.calls + 1 }
        ((b :: bs).drop (n + 1))
    | (st', .err) => ({ s with st := st', failed := true, calls := s.calls + 1 }, false)

def writeAll {σ : Type} (W : Writer σ) (s : Sink σ) (buf : Bytes) : Sink σ × Bool :=
  writeAllAux W buf.length s buf

/-! ## Output devices

`interpret` is generic in `output: &mut impl Write`; it is instantiated with the caller's writer,
with `Vec<u8>` (side buffers) and with `io::sink()`. -/

/-- What `interpret` needs from its `output`: `write_all`.  `true` = `Ok(())`. -/
structure Device (δ : Type) where
  writeAll : δ → Bytes → δ × Bool

/-- The caller's writer. -/
def userDev {σ : Type} (W : Writer σ) : Device (Sink σ) := { writeAll := writeAll W }

/-- `Vec<u8>`: `write_all` appends and cannot fail. -/
def vecDev : Device Bytes := { writeAll := fun b x => (b ++ x, true) }

/-- `io::sink()`. -/
def sinkDev : Device Unit := { writeAll := fun _ _ => ((), true) }

/-- Several consecutive `write_all` calls of one instruction (`?` after each). -/
def Device.writeChunks {δ : Type} (D : Device δ) : δ → List Bytes → δ × Bool
  | o, [] => (o, true)
  | o, c :: cs =>
    match D.writeAll o c with
    | (o', true) => D.writeChunks o' cs
    | (o', false) => (o', false)

/-! ## Programs and the VM state that decides where bytes go -/

/-- Result classes of `interpret` / `render_to`. -/
inductive Res where
  | ok
  | io                      -- `ErrorKind::Io`
  | fail (cls : String)     -- every other `Err` (rendering error, utf-8, missing template, depth)
  | panic (site : String)
  deriving Repr, DecidableEq

/-- The output-relevant steps of one `interpret` call, in execution order. -/
inductive Prog where
  /-- end of the chunk: `Ok(())` -/
  | halt
  /-- `rendering_error!` or any other non-I/O `Err` return -/
  | fail (cls : String)
  /-- a panic site unrelated to output (kept so that "no panic" is stated relative to the same
  program under a writer that never fails) -/
  | panic (site : String)
  /-- `WriteText` / `WriteTop` / `WritePath`: the `write_all` calls of one instruction, sent to the
  innermost capture buffer if there is one, else to `output` -/
  | write (chunks : List Bytes) (k : Prog)
  /-- `Instruction::Capture` -/
  | capture (k : Prog)
  /-- `Instruction::EndCapture`: pops the buffer; the captured bytes become a value the rest of the
  program may depend on (a failing `String::from_utf8` is `k bytes = fail ..`) -/
  | endCapture (k : Bytes → Prog)
  /-- `Instruction::Include(name)`: `body` is the included template's main chunk
  (`must_get_template` failing is `body = fail ..`) -/
  | incl (body : Prog) (k : Prog)
  /-- `Instruction::RenderBlock(name)`: `body` is `block_lineage[name][0]` -/
  | renderBlock (name : String) (body : Prog) (k : Prog)
  /-- `CallFunction("super")`: `body` is the next chunk of the lineage; its text becomes a value -/
  | callSuper (body : Prog) (k : Bytes → Prog)
  /-- `RenderInlineComponent` / `RenderBodyComponent`: `body` is the component's chunk run by
  `render_component` on a fresh state (depth limit exceeded is `body = fail ..`) -/
  | component (body : Prog) (k : Bytes → Prog)

/-- The fields of `vm::state::State` that route output. -/
structure St where
  /-- `capture_buffers`; head = innermost = Rust's `last()` -/
  captureBuffers : List Bytes
  /-- `capture_block` -/
  captureBlock : Option String
  /-- `block_buffer` -/
  blockBuffer : Bytes
  deriving Repr, DecidableEq

/-- `State::new_with_chunk`. -/
def St.fresh : St := { captureBuffers := [], captureBlock := none, blockBuffer := [] }

/-- `VirtualMachine::interpret(state, output)`. -/
def interp : {δ : Type} → Device δ → Prog → St → δ → Res × St × δ
  | _, _, .halt, st, o => (.ok, st, o)
  | _, _, .fail c, st, o => (.fail c, st, o)
  | _, _, .panic s, st, o => (.panic s, st, o)
  | _, D, .write chunks k, st, o =>
    match st.captureBuffers with
    | buf :: rest =>
      -- `captured.write_all(..)?` on a Vec
      match vecDev.writeChunks buf chunks with
      | (buf', true) => interp D k { st with captureBuffers := buf' :: rest } o
      | (buf', false) => (.io, { st with captureBuffers := buf' :: rest }, o)
    | [] =>
      -- `output.write_all(..)?`
      match D.writeChunks o chunks with
      | (o', true) => interp D k st o'
      | (o', false) => (.io, st, o')
  | _, D, .capture k, st, o => interp D k { st with captureBuffers := [] :: st.captureBuffers } o
  | _, D, .endCapture k, st, o =>
    match st.captureBuffers with
    | [] => (.panic "interpreter.rs:626 capture_buffers.pop().unwrap()", st, o)
    | buf :: rest => interp D (k buf) { st with captureBuffers := rest } o
  | _, D, .incl body k, st, o =>
    -- `render_include`: a new State (no capture buffers, no capture block); the include writes
    -- to `output`, or to the innermost capture buffer taken out of the state for the call
    match st.captureBuffers with
    | [] =>
      match interp D body St.fresh o with
      | (.ok, _, o') => interp D k st o'
      | (r, _, o') => (r, st, o')
    | buf :: rest =>
      match interp vecDev body St.fresh buf with
      | (.ok, _, buf') => interp D k { st with captureBuffers := buf' :: rest } o
      | (r, _, buf') => (r, { st with captureBuffers := buf' :: rest }, o)
  | _, D, .renderBlock name body k, st, o =>
    if st.captureBlock = some name then
      -- the block asked for by `render_block`: into a new Vec with the capture buffers set
      -- aside; `state.block_buffer = buf` even when the block failed
      match interp vecDev body { st with captureBuffers := [] } [] with
      | (.ok, st', buf) =>
        interp D k { st' with captureBuffers := st.captureBuffers, blockBuffer := buf } o
      | (r, st', buf) => (r, { st' with captureBuffers := st.captureBuffers, blockBuffer := buf }, o)
    else
      -- same state, same output (an enclosing capture stays in force)
      match interp D body st o with
      | (.ok, st', o') => interp D k st' o'
      | (r, st', o') => (r, st', o')
  | _, D, .callSuper body k, st, o =>
    -- `super_output`: a new Vec, capture buffers set aside
    match interp vecDev body { st with captureBuffers := [] } [] with
    | (.ok, st', out) => interp D (k out) { st' with captureBuffers := st.captureBuffers } o
    | (r, st', _) => (r, { st' with captureBuffers := st.captureBuffers }, o)
  | _, D, .component body k, st, o =>
    -- `render_component`: new State, new Vec
    match interp vecDev body St.fresh [] with
    | (.ok, _, out) => interp D (k out) st o
    | (r, _, _) => (r, st, o)

/-- `VirtualMachine::render_to(block_name, .., output)` (also the body of `Tera::render_to`,
`render_str_to`, `render_block_to`; `render_component_to` is the `none` case on the component's
chunk). -/
def renderTo {δ : Type} (D : Device δ) (block : Option String) (p : Prog) (o : δ) : Res × δ :=
  match block with
  | none =>
    match interp D p St.fresh o with
    | (r, _, o') => (r, o')
  | some b =>
    -- `self.interpret(&mut state, &mut io::sink())?; output.write_all(&state.block_buffer)?`
    match interp sinkDev p { St.fresh with captureBlock := some b } () with
    | (.ok, st, _) =>
      match D.writeAll o st.blockBuffer with
      | (o', true) => (.ok, o')
      | (o', false) => (.io, o')
    | (r, _, _) => (r, o)

/-- The `String`-returning variants (`VirtualMachine::render`, `render_block`, `Tera::render_str`,
`render_component`): `render_to` into a new `Vec`, then `String::from_utf8(output)?`.
`utf8` is the validity predicate of std. -/
def render (utf8 : Bytes → Bool) (block : Option String) (p : Prog) : Res × Bytes :=
  match renderTo vecDev block p [] with
  | (.ok, out) => if utf8 out then (.ok, out) else (.fail "utf8", out)
  | (r, out) => (r, out)

/-! ## Two concrete failure policies (the ones the harness enumerates) -/

/-- Fails on the `k`-th `write` call (0-based) and on every later one; accepts whole buffers
before that. State: number of calls seen. -/
def failAtCall (k : Nat) : Writer Nat :=
  { write := fun c buf => (c + 1, if c < k then .ok buf.length else .err) }

/-- Accepts `n` bytes in total (a partial write when the budget ends inside a buffer), then
errors. State: remaining budget. -/
def acceptBytes : Writer Nat :=
  { write := fun rem buf => if rem = 0 then (0, .err) else (rem - min rem buf.length, .ok (min rem buf.length)) }

/-- Never fails, accepts whole buffers (`Vec`, a file on a healthy disk). -/
def recorder : Writer Unit := { write := fun _ buf => ((), .ok buf.length) }

/-- Never fails but accepts one byte per call (short writes are legal). -/
def trickle : Writer Unit := { write := fun _ _ => ((), .ok 1) }

end Tera.W
