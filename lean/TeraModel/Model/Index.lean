/-
Model of indexing and slicing (C14).

Mirrors, function by function:
  tera/src/value/mod.rs      `resolve_index`, `Value::get_item` (array and string arms),
                             `Value::slice` + inner `slice_items`, `Value::len`, `Value::reverse`
  tera/src/vm/interpreter.rs arms `BinarySubscript | BinarySubscriptOpt`, `Slice | SliceOpt`
  tera/src/vm/for_loop.rs    `ForLoopIterator::String` (byte level: `char_indices().nth(1)`)
  tera/src/filters.rs        `truncate` (byte level: `char_indices().nth(length)`, `val[..idx]`),
                             `length`, `reverse`

Conventions: integers are `Int` with the i128 range made explicit (`chkI128` is the debug-mode
overflow check, `satAdd` is `i128::saturating_add`, `asUsize` is the truncating cast
`as usize` on a 64-bit target); every Rust site that can panic is an explicit `.panic` outcome;
the `while` loop takes fuel and running out of it is the explicit outcome `.fuel`.
Value strings are `List Char`; the byte-level functions at the end work on `List Nat` (bytes).
The `unicode` cargo feature (grapheme mode) is off, as in the default build.
-/
import TeraModel.Model.Value
namespace Tera.Index
open Tera

/-- Which slice operand an error is about. -/
inductive Pos where
  | start | stop | step
  deriving Repr, DecidableEq

/-- Error classes (messages are not modelled). -/
inductive Err where
  | recvUndefined            -- "Cannot index into an undefined value" / "Cannot slice an undefined value"
  | indexUndefined           -- "Index expression is undefined"
  | indexNotInteger          -- resolve_index: "{kind} index must be an integer, got .."
  | operandUndefined (p : Pos)   -- "Slice start|end|step is undefined"
  | operandNotInteger (p : Pos)  -- "Slice start|end|step must be an integer, got .."
  | stepZero                 -- "Slicing step cannot be 0"
  | notSliceable             -- "Slicing can only be used on arrays or strings"
  | mapNotModelled           -- receiver is a map: belongs to C15, not modelled here
  | noLength                 -- "Value of type .. has no length"
  | notReversible            -- "Value of type .. cannot be reversed"
  | notIterable              -- "Iteration not possible on type .."
  deriving Repr, DecidableEq

/-- Result of a modelled Rust call. -/
inductive Res (α : Type) where
  | ok (a : α)
  | err (e : Err)
  | panic (site : String)
  | fuel                      -- the model's loop fuel ran out (never the case, see `slice_terminates`)
  deriving Repr, DecidableEq

namespace Res
def bind {α β : Type} (r : Res α) (f : α → Res β) : Res β :=
  match r with
  | .ok a => f a
  | .err e => .err e
  | .panic s => .panic s
  | .fuel => .fuel

def map {α β : Type} (f : α → β) (r : Res α) : Res β := r.bind (fun a => .ok (f a))

def isPanic {α : Type} : Res α → Bool
  | .panic _ => true
  | _ => false
end Res

def USIZE_MAX : Nat := 2^64 - 1

/-- `x as usize` for an i128 `x` on a 64-bit target: keeps the low 64 bits. -/
def asUsize (i : Int) : Nat := (i % (2:Int)^64).toNat

/-- debug-mode overflow check of an i128 `+` / `-` (the harness builds with overflow checks). -/
def chkI128 (site : String) (r : Int) : Res Int :=
  if inI128 r then .ok r else .panic site

/-- `i128::saturating_add`. -/
def satAdd (a b : Int) : Int :=
  let r := a + b
  if r > I128_MAX then I128_MAX else if r < I128_MIN then I128_MIN else r

/-- `Ord::clamp`: `assert!(min <= max)`, then `if self < min {min} else if self > max {max} else {self}`. -/
def clampI (p lo hi : Int) : Res Int :=
  if lo ≤ hi then
    .ok (if p < lo then lo else if p > hi then hi else p)
  else .panic "core::cmp::Ord::clamp assert min <= max"

/-- `resolve_index(item, len, kind)`: `Ok(Some(i))`, `Ok(None)` or the non-integer error. -/
def resolveIndex (item : Value) (len : Nat) : Res (Option Nat) :=
  match item.asI128 with
  | some idx =>
    (if idx < 0 then chkI128 "value/mod.rs:393 idx + len" (idx + (len : Int)) else .ok idx).bind
      fun normalized =>
        -- (0..len as i128).contains(&normalized).then_some(normalized as usize)
        if 0 ≤ normalized ∧ normalized < (len : Int) then .ok (some (asUsize normalized))
        else .ok none
  | none =>
    match item with
    | .u128 _ => .ok none
    | _ => .err .indexNotInteger

/-- `Value::get_item` (array arm, string arm, fall-through arm; the map arm is C15's). -/
def getItem (v : Value) (item : Value) : Res Value :=
  match v with
  | .map _ => .err .mapNotModelled
  | .arr xs =>
    (resolveIndex item xs.length).bind fun r =>
      match r with
      | some i =>
        match xs[i]? with
        | some x => .ok x
        | none => .panic "value/mod.rs:943 arr[i]"
      | none => .ok .undef
  | .str kind s =>
    -- let chars: Vec<char> = s.as_str().chars().collect();
    (resolveIndex item s.length).bind fun r =>
      match r with
      | some i =>
        match s[i]? with
        | some c => .ok (.str kind [c])
        | none => .panic "value/mod.rs:954 chars[i]"
      | none => .ok .undef
  | _ => .ok .undef

/-- The `resolve` closure of `slice_items`. -/
def resolveParam (param : Option Int) (dflt len lo hi : Int) : Res Int :=
  match param with
  | none => .ok dflt
  | some p => clampI (if p < 0 then satAdd p len else p) lo hi

/-- The `while` loop of `slice_items`:
`while if step > 0 { i < e } else { i > e } { out.push(items[i as usize].clone()); i = i.saturating_add(step); }` -/
def sliceLoop {α : Type} (items : List α) (step e : Int) : Nat → Int → List α → Res (List α)
  | fuel, i, out =>
    if (if step > 0 then i < e else i > e) then
      match fuel with
      | 0 => .fuel
      | f + 1 =>
        match items[asUsize i]? with
        | none => .panic "value/mod.rs:1009 items[i as usize]"
        | some x => sliceLoop items step e f (satAdd i step) (out ++ [x])
    else .ok out

/-- `slice_items(items, start, end, step)` (step is non-zero at the only call sites). -/
def sliceItems {α : Type} (fuel : Nat) (items : List α) (start stop : Option Int) (step : Int) :
    Res (List α) :=
  let len : Int := (items.length : Int)
  (if step > 0 then Res.ok ((0 : Int), len)
   else (chkI128 "value/mod.rs:994 len - 1" (len - 1)).bind fun h => .ok ((-1 : Int), h)).bind
  fun (lo, hi) =>
    (resolveParam start (if step > 0 then lo else hi) len lo hi).bind fun s =>
    (resolveParam stop (if step > 0 then hi else lo) len lo hi).bind fun e =>
    sliceLoop items step e fuel s []

/-- `Value::slice(start, end, step)`; `fuel` bounds the loop. -/
def sliceF (fuel : Nat) (v : Value) (start stop step : Option Int) : Res Value :=
  let step := step.getD 1
  if step = 0 then .err .stepZero
  else
    match v with
    | .arr xs => (sliceItems fuel xs start stop step).map Value.arr
    | .str kind s => (sliceItems fuel s start stop step).map (Value.str kind)
    | _ => .err .notSliceable

/-- Number of elements the loop can visit at most (what fuel is instantiated with). -/
def recvLen : Value → Nat
  | .arr xs => xs.length
  | .str _ s => s.length
  | _ => 0

/-- `Value::slice` with the fuel that `slice_terminates` shows sufficient. -/
def slice (v : Value) (start stop step : Option Int) : Res Value :=
  sliceF (recvLen v) v start stop step

/-! ### VM arms -/

/-- `Value::is_undefined`. -/
def isUndef : Value → Bool
  | .undef => true
  | _ => false

/-- `val.is_undefined() || val.is_none()`. -/
def isUndefOrNone : Value → Bool
  | .undef => true
  | .none => true
  | _ => false

/-- `BinarySubscript` (optional = false) and `BinarySubscriptOpt` (optional = true). -/
def vmSubscript (optional : Bool) (val subscript : Value) : Res Value :=
  if optional && isUndefOrNone val then .ok .undef
  else if isUndef val then .err .recvUndefined
  else if isUndef subscript then .err .indexUndefined
  else getItem val subscript

/-- One slice operand as the VM reads it off the stack: none ⇒ absent, undefined ⇒ error,
anything for which `as_i128` is `None` ⇒ error. -/
def sliceOperand (p : Pos) (v : Value) : Res (Option Int) :=
  match v with
  | .none => .ok none
  | .undef => .err (.operandUndefined p)
  | _ =>
    match v.asI128 with
    | some n => .ok (some n)
    | none => .err (.operandNotInteger p)

/-- `Slice` (optional = false) and `SliceOpt` (optional = true). -/
def vmSlice (optional : Bool) (val start stop step : Value) : Res Value :=
  if optional && isUndefOrNone val then .ok .undef
  else if isUndef val then .err .recvUndefined
  else
    (sliceOperand .start start).bind fun s =>
    (sliceOperand .stop stop).bind fun e =>
    (sliceOperand .step step).bind fun st =>
    slice val s e st

/-! ### len, reverse, length / reverse filters (char level) -/

/-- `Value::len`. -/
def len : Value → Option Nat
  | .map es => some es.length
  | .arr xs => some xs.length
  | .bytes bs => some bs.length
  | .str _ s => some s.length          -- `chars().count()`
  | _ => none

/-- `filters::length`. -/
def lengthFilter (v : Value) : Res Nat :=
  match len v with
  | some n => .ok n
  | none => .err .noLength

/-- `Value::reverse` (also `filters::reverse`).  The string result is built with
`Value::from(String)`, i.e. it is a normal string whatever the input kind was; the bytes result
is built with `Value::from(Vec<u8>)`, which is the generic `From<Vec<T>>`: an array of u64. -/
def reverse : Value → Res Value
  | .arr xs => .ok (.arr xs.reverse)
  | .bytes bs => .ok (.arr (bs.reverse.map Value.u64))
  | .str _ s => .ok (.str false s.reverse)
  | _ => .err .notReversible

/-- What a `for` loop over a string yields, at the char level: one normal string per char. -/
def iterChars (s : List Char) : List Value := s.map fun c => Value.str false [c]

/-- `filters::truncate` at the char level. -/
def truncateChars (s : List Char) (length : Nat) (endS : List Char) : List Char :=
  if length < s.length then s.take length ++ endS else s

/-! ### Byte level: `str` is a `List Nat` of UTF-8 bytes -/

/-- Width of the sequence a lead byte introduces (`core::str::validations::utf8_char_width`
restricted to the lead bytes that occur in valid text). -/
def utf8Width (b : Nat) : Nat :=
  if b < 0x80 then 1 else if b < 0xE0 then 2 else if b < 0xF0 then 3 else 4

/-- Byte offset of `s.char_indices().nth(n)`: `CharIndices` walks lead bytes, skipping each
sequence's continuation bytes. `off` is the offset of the head of `bs`. -/
def charIndexNth : List Nat → Nat → Nat → Option Nat
  | [], _, _ => none
  | _ :: _, 0, off => some off
  | b :: rest, n + 1, off => charIndexNth (rest.drop (utf8Width b - 1)) n (off + utf8Width b)

/-- `str::is_char_boundary`. -/
def isCharBoundary (bs : List Nat) (idx : Nat) : Bool :=
  if idx = 0 then true
  else if idx ≥ bs.length then idx = bs.length
  else
    match bs[idx]? with
    | some b => b < 0x80 || b ≥ 0xC0      -- `(b as i8) >= -0x40`
    | none => false

/-- `&s[..idx]`: panics off a char boundary. -/
def strTo (bs : List Nat) (idx : Nat) : Res (List Nat) :=
  if isCharBoundary bs idx then .ok (bs.take idx) else .panic "str slice ..idx not on a char boundary"

/-- `&s[pos..]`: panics off a char boundary. -/
def strFrom (bs : List Nat) (pos : Nat) : Res (List Nat) :=
  if isCharBoundary bs pos then .ok (bs.drop pos) else .panic "str slice pos.. not on a char boundary"

/-- `filters::truncate` on bytes (`unicode` feature off). -/
def truncateBytes (val : List Nat) (length : Nat) (endS : List Nat) : Res (List Nat) :=
  match charIndexNth val length 0 with
  | some byteIdx => (strTo val byteIdx).map (· ++ endS)
  | none => .ok val

/-- One `next()` of `ForLoopIterator::String`: `none` when exhausted, else the bytes of the item
and the new `current_pos`. (`remaining` is added by `strIterNextR` below.) -/
def strIterNext (content : List Nat) (currentPos : Nat) : Res (Option (List Nat × Nat)) :=
  if currentPos ≥ content.length then .ok none
  else
    (strFrom content currentPos).bind fun rest =>
      match charIndexNth rest 1 0 with
      | some charEnd => (strTo rest charEnd).map fun cs => some (cs, currentPos + charEnd)
      | none => .ok (some (rest, content.length))

/-- The whole iteration (fuel = number of `next()` calls allowed). -/
def strIterAll (content : List Nat) : Nat → Nat → List (List Nat) → Res (List (List Nat))
  | 0, _, _ => .fuel
  | f + 1, pos, acc =>
    (strIterNext content pos).bind fun r =>
      match r with
      | none => .ok acc
      | some (item, pos') => strIterAll content f pos' (acc ++ [item])

/-! ### `ForLoop`: what `loop.index`, `loop.index0`, `loop.first`, `loop.last`, `loop.length` show -/

/-- `struct Loop` of for_loop.rs. -/
structure LoopData where
  index0 : Nat
  first : Bool
  last : Bool
  length : Nat
  deriving Repr, DecidableEq

/-- `Loop::index`. -/
def LoopData.index (l : LoopData) : Nat := l.index0 + 1

/-- `ForLoop::new`: `length = iterator.size_hint().1.unwrap_or(0)`, `last: length == 1`. -/
def loopInit (length : Nat) : LoopData := ⟨0, true, length == 1, length⟩

/-- `Loop::advance`. -/
def LoopData.advance (l : LoopData) : LoopData :=
  ⟨l.index0 + 1, false, (l.index0 + 1) + 1 == l.length, l.length⟩

/-- The `Iterate` instruction over an iterator whose `size_hint` is exact (`Array`, `Bytes`,
sorted `Map` pairs: `len - index`): `is_over()` is `remaining == 0`; `advance()` takes the next
item and, from the second pass on (`end_ip != 0`), calls `Loop::advance`. Returns the loop data
the body sees at each pass. -/
def forLoopRows : Nat → Nat → LoopData → Bool → List LoopData → Res (List LoopData)
  | 0, _, _, _, _ => .fuel
  | f + 1, remaining, ld, started, acc =>
    if remaining = 0 then .ok acc
    else
      let ld' := if started then ld.advance else ld
      forLoopRows f (remaining - 1) ld' true (acc ++ [ld'])

/-- The loop data of every pass for a container of `n` items. -/
def loopRows (n : Nat) : Res (List LoopData) := forLoopRows (n + 1) n (loopInit n) false []

/-- `str::chars().count()`: counts the bytes that are not continuation bytes. -/
def charsCount (bs : List Nat) : Nat :=
  (bs.filter fun b => !(decide (0x80 ≤ b) && decide (b < 0xC0))).length

/-- `ForLoopIterator::String::next` with its `remaining` counter: `None` at the end, else
`*remaining -= 1` (an overflow panic if it were 0), then the item as in `strIterNext`. -/
def strIterNextR (content : List Nat) (currentPos remaining : Nat) :
    Res (Option (List Nat × Nat × Nat)) :=
  if currentPos ≥ content.length then .ok none
  else if remaining = 0 then .panic "vm/for_loop.rs:64 *remaining -= 1"
  else (strIterNext content currentPos).map fun r =>
    r.map fun (item, pos') => (item, pos', remaining - 1)

/-- A `for` loop over a string as the VM runs it: `create_string_iterator` sets
`remaining = content.chars().count()`, `ForLoop::new` takes `size_hint().1 = remaining` as the
loop length, `Iterate` leaves when `size_hint().0 = remaining` is 0, otherwise `advance()`.
Returns (item bytes, loop data) per pass. If `next()` answered `None` while `remaining > 0`
the engine would run the body again on the stale values, for ever: here that ends in `.fuel`. -/
def strForLoop (content : List Nat) :
    Nat → Nat → Nat → LoopData → Bool → List (List Nat × LoopData) → Res (List (List Nat × LoopData))
  | 0, _, _, _, _, _ => .fuel
  | f + 1, pos, remaining, ld, started, acc =>
    if remaining = 0 then .ok acc
    else
      (strIterNextR content pos remaining).bind fun r =>
        match r with
        | none => strForLoop content f pos remaining ld true (acc ++ acc.getLast?.toList)
        | some (item, pos', rem') =>
          let ld' := if started then ld.advance else ld
          strForLoop content f pos' rem' ld' true (acc ++ [(item, ld')])

/-- The whole string loop with the fuel that suffices (`chars + 1` passes). -/
def strFor (content : List Nat) : Res (List (List Nat × LoopData)) :=
  strForLoop content (charsCount content + 1) 0 (charsCount content) (loopInit (charsCount content))
    false []

/-! ### list comprehensions `[e for v in xs]` (compiler.rs `Expression::ListComprehension`) -/

/-- The items `create_for_loop_iterator` yields for a container (maps: C15/C03, not modelled):
a string goes by characters, each a normal one-character string; bytes go as u64. -/
def iterItems : Value → Res (List Value)
  | .str _ s => .ok (iterChars s)
  | .arr xs => .ok xs
  | .bytes bs => .ok (bs.map Value.u64)
  | .map _ => .err .mapNotModelled
  | _ => .err .notIterable          -- `can_be_iterated_on()` is false

/-- `BuildList(0); <target>; StartIterateComprehension; StoreLocal v; Iterate; <expr>;
AppendToList; Jump; PopLoop` with the body `body` applied to each item: the result is always a
new list with one entry per pass. -/
def comprehension (body : Value → Value) (target : Value) : Res Value :=
  (iterItems target).bind fun items => .ok (.arr (items.map body))

/-- The identity comprehension `[v for v in xs]`. -/
def identityComprehension (target : Value) : Res Value := comprehension id target

end Tera.Index
