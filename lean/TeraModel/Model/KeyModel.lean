/-
Model of tera/src/value/key.rs: the hand-written `PartialEq`, `Ord` and `Hash` of `Key<'a>` and of
the private `KeyNumber` they normalise integers through.

`KeyRepr` has the seven constructors of the Rust enum (owned `String(Arc<str>)` and borrowed
`Str(&str)` are distinct here); the six-constructor `Tera.Key` of Model/Value.lean (what a stored
map key is) embeds by `Key.toRepr`.  Every function below is written on `KeyRepr`, arm for arm
as in the Rust.

The hasher is not modelled: `hashInput` is the sequence of `Hasher::write_*` calls `Key::hash`
makes, which is all a `HashMap` ever learns about a key besides `==`.
-/
import TeraModel.Model.Value
import TeraModel.Generated.TypeOrder
namespace Tera

/-- `Ord::cmp` on `u8` / `usize` / `u128` payloads. -/
def cmpNat (a b : Nat) : Ordering := if a < b then .lt else if a = b then .eq else .gt

/-- `bool::cmp` (false < true). -/
def cmpBool (a b : Bool) : Ordering :=
  match a, b with
  | false, true => .lt
  | true, false => .gt
  | _, _ => .eq

/-- Lexicographic `Ord::cmp` of two slices under an element comparison (`[T]::cmp`, `Iterator::cmp`,
`str::cmp` on code points): first non-equal pair decides, then the lengths. -/
def lexCmp {α β : Type} (f : α → β → Ordering) : List α → List β → Ordering
  | [], [] => .eq
  | [], _ :: _ => .lt
  | _ :: _, [] => .gt
  | x :: xs, y :: ys =>
    match f x y with
    | .eq => lexCmp f xs ys
    | o => o

/-- Stable insertion: `x` (which came before everything in the list) goes in front of the first
element that is not smaller. -/
def insertBy {α : Type} (cmp : α → α → Ordering) (x : α) : List α → List α
  | [] => [x]
  | y :: ys => if cmp x y == .gt then y :: insertBy cmp x ys else x :: y :: ys

/-- `slice::sort_by(cmp)`: reference stable sort (std promises a stable sort whenever `cmp` is a
total order). -/
def sortBy {α : Type} (cmp : α → α → Ordering) : List α → List α
  | [] => []
  | x :: xs => insertBy cmp x (sortBy cmp xs)

/-- `str::cmp`: byte-wise on UTF-8, which is the order of the code point sequences. -/
def cmpStr (a b : List Char) : Ordering := lexCmp (fun x y => cmpNat x.toNat y.toNat) a b

/-- The seven representations of `enum Key<'a>`. -/
inductive KeyRepr where
  | bool (b : Bool)
  | u64 (n : Nat)
  | i64 (n : Int)
  | u128 (n : Nat)
  | i128 (n : Int)
  | string (s : List Char)   -- `Key::String(Arc<str>)`, owned
  | str (s : List Char)      -- `Key::Str(&'a str)`, borrowed
  deriving Repr, DecidableEq, Inhabited

/-- `enum KeyNumber`. -/
inductive KeyNumber where
  | signed (v : Int)      -- `Signed(i128)`
  | unsigned (v : Nat)    -- `Unsigned(u128)`
  deriving Repr, DecidableEq

/-- One `Hasher::write_*` call. -/
inductive HashTok where
  | u8 (n : Nat)            -- `write_u8`
  | w128 (n : Nat)          -- `write_u128` / `write_i128` (the 16 two's-complement bytes)
  | str (s : List Char)     -- `str::hash`: the UTF-8 bytes followed by 0xff
  deriving Repr, DecidableEq

namespace KeyRepr

/-- `Key::as_str`. -/
def asStr : KeyRepr → Option (List Char)
  | .string s => some s
  | .str s => some s
  | _ => none

/-- `KeyNumber::from_key` / `Key::as_number`. -/
def asNumber : KeyRepr → Option KeyNumber
  | .u64 v => some (.unsigned v)
  | .i64 v => some (.signed v)
  | .u128 v => some (.unsigned v)
  | .i128 v => some (.signed v)
  | _ => none

/-- key.rs `type_order`, with the ranks read from the source by the translator. -/
def typeOrder : KeyRepr → Nat
  | .bool _ => Gen.keyRankBool
  | .u64 _ => Gen.keyRankU64
  | .i64 _ => Gen.keyRankI64
  | .u128 _ => Gen.keyRankU128
  | .i128 _ => Gen.keyRankI128
  | .string _ => Gen.keyRankString
  | .str _ => Gen.keyRankStr

/-- Range of the payload the Rust type guarantees. -/
def WF : KeyRepr → Prop
  | .u64 n => n ≤ U64_MAX
  | .i64 n => inI64 n
  | .u128 n => n ≤ U128_MAX
  | .i128 n => inI128 n
  | _ => True

end KeyRepr

namespace KeyNumber

/-- `impl PartialEq for KeyNumber`. `a as u128` of a non-negative i128 is `a`. -/
def eq : KeyNumber → KeyNumber → Bool
  | .signed a, .signed b => a == b
  | .unsigned a, .unsigned b => a == b
  | .signed a, .unsigned b => if a < 0 then false else a.toNat == b
  | .unsigned a, .signed b => if b < 0 then false else a == b.toNat

/-- `impl Ord for KeyNumber`. -/
def cmp : KeyNumber → KeyNumber → Ordering
  | .signed a, .signed b => cmpInt a b
  | .unsigned a, .unsigned b => cmpNat a b
  | .signed a, .unsigned b => if a < 0 then .lt else cmpNat a.toNat b
  | .unsigned a, .signed b => if b < 0 then .gt else cmpNat a b.toNat

/-- `impl Hash for KeyNumber`: a sign tag, then the 16 bytes of the magnitude as u128 (of the
two's complement i128 when negative). -/
def hashInput : KeyNumber → List HashTok
  | .signed v => if v < 0 then [.u8 1, .w128 (v % (2:Int)^128).toNat] else [.u8 0, .w128 v.toNat]
  | .unsigned v => [.u8 0, .w128 v]

/-- The integer denoted. -/
def val : KeyNumber → Int
  | .signed v => v
  | .unsigned v => (v : Int)

end KeyNumber

namespace KeyRepr

/-- `impl PartialEq for Key`. -/
def eq (a b : KeyRepr) : Bool :=
  match a.asStr, b.asStr with
  | some x, some y => x == y
  | _, _ =>
    match a, b with
    | .bool x, .bool y => x == y
    | _, _ =>
      match a.asNumber, b.asNumber with
      | some l, some r => KeyNumber.eq l r
      | _, _ => false

/-- `impl Ord for Key`. -/
def cmp (a b : KeyRepr) : Ordering :=
  match a.asStr, b.asStr with
  | some x, some y => cmpStr x y
  | _, _ =>
    match a, b with
    | .bool x, .bool y => cmpBool x y
    | _, _ =>
      match a.asNumber, b.asNumber with
      | some l, some r => KeyNumber.cmp l r
      | _, _ => cmpNat a.typeOrder b.typeOrder

/-- `impl Hash for Key`: what is fed to the hasher. -/
def hashInput (a : KeyRepr) : List HashTok :=
  match a.asStr with
  | some s => [.str s]
  | none =>
    match a with
    | .bool v => [.u8 (if v then 1 else 0)]
    | _ =>
      match a.asNumber with
      | some n => n.hashInput
      | none => []

end KeyRepr

namespace Key

/-- A stored map key (`Key<'static>`; string keys made by `as_key`/`From<String>` are owned). -/
def toRepr : Key → KeyRepr
  | .bool b => .bool b
  | .u64 n => .u64 n
  | .i64 n => .i64 n
  | .u128 n => .u128 n
  | .i128 n => .i128 n
  | .str s => .string s

def eq (a b : Key) : Bool := KeyRepr.eq a.toRepr b.toRepr
def cmpK (a b : Key) : Ordering := KeyRepr.cmp a.toRepr b.toRepr
def hashInput (a : Key) : List HashTok := a.toRepr.hashInput
def WF (a : Key) : Prop := a.toRepr.WF

end Key

/-- `Key::as_value` / `From<Key> for Value`. -/
def Key.asValue : Key → Value
  | .bool b => .bool b
  | .u64 n => .u64 n
  | .i64 n => .i64 n
  | .u128 n => .u128 n
  | .i128 n => .i128 n
  | .str s => .str false s

/-- `Value::as_key` (`none` = the "Not a valid key type" error). -/
def Value.asKeyK : Value → Option Key
  | .bool b => some (.bool b)
  | .u64 n => some (.u64 n)
  | .i64 n => some (.i64 n)
  | .u128 n => some (.u128 n)
  | .i128 n => some (.i128 n)
  | .str _ s => some (.str s)
  | _ => Option.none

end Tera
