/-
Model of what `Tera::finalize_templates` (tera/src/tera.rs) derives from a set of templates, and of
the two graph walks it calls (`find_parents`, `check_include_cycles`, tera/src/template.rs).

A template is represented by the summary of what `Template::new` collects from its source:
its name, the `extends` target, all blocks (nested ones included, with the enclosing block if
any: `block_name_spans` holds exactly the blocks with `nestedIn = none`), the include targets
(top level, inside blocks, inside component bodies: `include_calls` is their union), the
components it defines, the components it calls, whether it references an unknown
filter / test / function, and the length of its source.

`HashMap`s are association lists (first entry for a key wins, `insert` removes older entries);
wherever the Rust iterates a `HashMap` the iteration order is an explicit list argument
(`o2`, `o3`), and the theorems quantify over every enumeration of the keys.
Import-free: this file is linked into the model drivers.
-/
namespace Tera.Reg

/-- One `{% block %}` of a template (`Template.blocks` entry). -/
structure BlockDef where
  name : String
  /-- `chunk.is_calling_function("super")` -/
  callsSuper : Bool
  /-- the block of the same template that textually encloses this one (none = top level) -/
  nestedIn : Option String
  /-- include targets written directly in this block -/
  includes : List String
  deriving Repr, DecidableEq

/-- One `{% component %}` definition. -/
structure CompDef where
  name : String
  includes : List String
  deriving Repr, DecidableEq

/-- What `Template::new` keeps of a source (everything `finalize_templates` reads). -/
structure Tpl where
  name : String
  /-- the exact `{% extends %}` target -/
  parent : Option String
  blocks : List BlockDef
  topIncludes : List String
  comps : List CompDef
  compCalls : List String
  /-- the source uses a filter, test or function that is not registered -/
  badRefs : Bool
  srcLen : Nat
  deriving Repr, DecidableEq

/-- `Template.include_calls` keys: includes at top level, inside blocks and inside component
bodies (compiler.rs `Node::Include`, template.rs:107). -/
def Tpl.includeCalls (t : Tpl) : List String :=
  t.topIncludes ++ (t.blocks.flatMap (·.includes) ++ t.comps.flatMap (·.includes))

def Tpl.findBlock (t : Tpl) (b : String) : Option BlockDef :=
  t.blocks.find? (fun d => d.name == b)

def Tpl.hasBlock (t : Tpl) (b : String) : Bool := (t.findBlock b).isSome

/-! ## The template map -/

/-- `self.templates.get(k)` -/
def get (S : List Tpl) (k : String) : Option Tpl := S.find? (fun t => t.name == k)

def has (S : List Tpl) (k : String) : Bool := (get S k).isSome

def keys (S : List Tpl) : List String := S.map (·.name)

/-! ## Sorting names (`names.sort()` on a key set) -/

def insertSorted (x : String) : List String → List String
  | [] => [x]
  | y :: ys => if x < y then x :: y :: ys else if x = y then y :: ys else y :: insertSorted x ys

/-- sorted, duplicate-free list of the members of `l` -/
def sortDedup (l : List String) : List String := l.foldr insertSorted []

/-! ## `resolve_template_name` (tera.rs:947): exact name first, then prefixes in order -/

def resolvePrefixes (S : List Tpl) (name : String) : List String → Option String
  | [] => none
  | p :: ps => if has S (p ++ name) then some (p ++ name) else resolvePrefixes S name ps

def resolve (prefixes : List String) (S : List Tpl) (name : String) : Option String :=
  if has S name then some name else resolvePrefixes S name prefixes

/-- `get_template_priority` (tera.rs:936): 0 = no prefix matches, else 1 + index of the first
prefix the name starts with. -/
def priorityFrom (name : String) : List String → Nat → Nat
  | [], _ => 0
  | p :: ps, i => if p.toList.isPrefixOf name.toList then i + 1 else priorityFrom name ps (i + 1)

def priority (prefixes : List String) (name : String) : Nat := priorityFrom name prefixes 0

/-! ## `find_parents` (template.rs:184) -/

inductive FPRes where
  /-- parents, root first -/
  | ok (parents : List String)
  /-- `Error::missing_parent(template, target)` -/
  | missingParent (tpl : String) (target : String)
  /-- `Error::circular_extend(start, chain)` -/
  | circular (chain : List String)
  | outOfFuel
  /-- `tera.templates[resolved]` on a name that is not a key -/
  | panic
  deriving Repr, DecidableEq

/-- The recursion of `find_parents`; `parents` is the accumulated list (nearest first). -/
def findParentsAux (prefixes : List String) (S : List Tpl) (start : String) :
    Nat → Tpl → List String → FPRes
  | 0, _, _ => .outOfFuel
  | fuel + 1, t, parents =>
    match t.parent with
    | none => .ok parents.reverse
    | some p =>
      match resolve prefixes S p with
      | none => .missingParent t.name p
      | some r =>
        if r = start ∨ r ∈ parents then .circular (parents ++ [r])
        else
          match get S r with
          | none => .panic
          | some pt => findParentsAux prefixes S start fuel pt (parents ++ [pt.name])

/-- `find_parents(self, tpl, tpl, vec![])`; fuel = number of templates + 1 (proved sufficient). -/
def findParents (prefixes : List String) (S : List Tpl) (t : Tpl) : FPRes :=
  findParentsAux prefixes S t.name (S.length + 1) t []

/-! ## `check_include_cycles` (template.rs:149) -/

inductive DfsRes where
  /-- the `visited` set after the walk -/
  | ok (visited : List String)
  /-- `Error::circular_include(resolved, chain)` -/
  | cycle (chain : List String)
  | outOfFuel
  | panic
  deriving Repr, DecidableEq

/-- The `for include_name in names` loop of `walk`; `rec` is the recursive call of `walk`. -/
def walkNames (prefixes : List String) (S : List Tpl)
    (rec : Tpl → List String → List String → DfsRes) :
    List String → List String → List String → DfsRes
  | [], _, visited => .ok visited
  | n :: ns, stack, visited =>
    match resolve prefixes S n with
    | none => walkNames prefixes S rec ns stack visited
    | some r =>
      if r ∈ stack then .cycle (stack ++ [r])
      else if r ∈ visited then walkNames prefixes S rec ns stack visited
      else
        match get S r with
        | none => .panic
        | some t =>
          match rec t (stack ++ [r]) visited with
          | .ok visited' => walkNames prefixes S rec ns stack (r :: visited')
          | e => e

/-- `walk(tera, current, stack, visited)`; the fuel bounds the recursion depth. -/
def walk (prefixes : List String) (S : List Tpl) : Nat → Tpl → List String → List String → DfsRes
  | 0, _, _, _ => .outOfFuel
  | fuel + 1, cur, stack, visited =>
    walkNames prefixes S (walk prefixes S fuel) (sortDedup cur.includeCalls) stack visited

/-- `check_include_cycles(tera, start)`; fuel = number of templates (proved sufficient). -/
def checkIncludeCycles (prefixes : List String) (S : List Tpl) (start : Tpl) : DfsRes :=
  walk prefixes S S.length start [start.name] []

/-! ## Error classes of `finalize_templates` -/

inductive Err where
  /-- `ErrorKind::MissingParent { current, parent }` -/
  | missingParent (current : String) (target : String)
  /-- `ErrorKind::CircularExtend { tpl, inheritance_chain }` -/
  | circularExtend (tpl : String) (chain : List String)
  /-- `ErrorKind::CircularInclude { tpl, include_chain }` (tpl = the repeated template) -/
  | circularInclude (tpl : String) (chain : List String)
  /-- `Error::message`: duplicate component, unknown references, orphan blocks -/
  | msg
  | templateNotFound
  /-- `Template::new` failed (only arises in `add_raw_templates`) -/
  | syntax
  | outOfFuel
  | panic
  deriving Repr, DecidableEq

/-! ## First loop: parents, include cycles, component table, size hint -/

/-- `component_sources`: component name ↦ (defining template, priority) -/
abbrev CompSources := List (String × String × Nat)

def compLookup (cs : CompSources) (c : String) : Option (String × Nat) :=
  (cs.find? (fun e => e.1 == c)).map (·.2)

def compInsert (cs : CompSources) (c : String) (v : String × Nat) : CompSources :=
  (c, v) :: cs.filter (fun e => !(e.1 == c))

/-- the body of `for component_name in tpl.components.keys()` -/
def compStep (tname : String) (prio : Nat) (cs : CompSources) (c : String) : Except Err CompSources :=
  match compLookup cs c with
  | some (_, exPrio) =>
    if prio < exPrio then .ok (compInsert cs c (tname, prio))
    else if prio > exPrio then .ok cs
    else .error .msg
  | none => .ok (compInsert cs c (tname, prio))

def compLoop (tname : String) (prio : Nat) : CompSources → List String → Except Err CompSources
  | cs, [] => .ok cs
  | cs, c :: rest =>
    match compStep tname prio cs c with
    | .ok cs' => compLoop tname prio cs' rest
    | .error e => .error e

structure Loop1 where
  parents : List (String × List String) := []
  sizes : List (String × Nat) := []
  comps : CompSources := []
  deriving Repr, DecidableEq

def lookupParents (ps : List (String × List String)) (k : String) : Option (List String) :=
  (ps.find? (fun e => e.1 == k)).map (·.2)

def sumSrcLen (S : List Tpl) : List String → Option Nat
  | [] => some 0
  | p :: ps =>
    match get S p, sumSrcLen S ps with
    | some t, some n => some (t.srcLen + n)
    | _, _ => none

/-- One iteration of the first loop of `finalize_templates` for the template named `name`. -/
def loop1Step (prefixes : List String) (S : List Tpl) (acc : Loop1) (name : String) : Except Err Loop1 :=
  match get S name with
  | none => .error .panic
  | some tpl =>
    match findParents prefixes S tpl with
    | .missingParent c p => .error (.missingParent c p)
    | .circular chain => .error (.circularExtend tpl.name chain)
    | .outOfFuel => .error .outOfFuel
    | .panic => .error .panic
    | .ok parents =>
      match checkIncludeCycles prefixes S tpl with
      | .cycle chain => .error (.circularInclude (chain.getLast?.getD "") chain)
      | .outOfFuel => .error .outOfFuel
      | .panic => .error .panic
      | .ok _ =>
        match compLoop tpl.name (priority prefixes tpl.name) acc.comps (tpl.comps.map (·.name)) with
        | .error e => .error e
        | .ok comps =>
          match sumSrcLen S parents with
          | none => .error .panic
          | some n =>
            .ok { parents := acc.parents ++ [(name, parents)],
                  sizes := acc.sizes ++ [(name, tpl.srcLen + n)],
                  comps := comps }

def loop1 (prefixes : List String) (S : List Tpl) : Loop1 → List String → Except Err Loop1
  | acc, [] => .ok acc
  | acc, n :: ns =>
    match loop1Step prefixes S acc n with
    | .ok acc' => loop1 prefixes S acc' ns
    | .error e => .error e

/-! ## Second loop: reference validation, orphan blocks, own lineage (pass 1) -/

/-- a block map: block name ↦ lineage (owner templates, most derived first) -/
abbrev BlockMap := List (String × List String)

def blockLookup (m : BlockMap) (b : String) : Option (List String) :=
  (m.find? (fun e => e.1 == b)).map (·.2)

/-- `tpl_blocks` -/
abbrev TplBlocks := List (String × BlockMap)

def tbLookup (tb : TplBlocks) (k : String) : Option BlockMap :=
  (tb.find? (fun e => e.1 == k)).map (·.2)

/-- `validate_template_references` returns a non-empty list -/
def hasRefErrors (prefixes : List String) (S : List Tpl) (comps : CompSources) (t : Tpl) : Bool :=
  t.badRefs
  || t.compCalls.any (fun c => (compLookup comps c).isNone)
  || t.includeCalls.any (fun n => (resolve prefixes S n).isNone)

/-- a top-level block of a child template that no parent defines (tera.rs:656) -/
def hasOrphanBlock (S : List Tpl) (parents : List String) (t : Tpl) : Bool :=
  !parents.isEmpty &&
  t.blocks.any (fun b =>
    b.nestedIn.isNone &&
    !(parents.any (fun p => match get S p with | some pt => pt.hasBlock b.name | none => false)))

/-- The `for parent_tpl_name in tpl_parents[name].iter().rev()` loop for one block: the argument
is the parent list nearest first. -/
def walkUp (prefixes : List String) (S : List Tpl) (b : String) : List String → Except Err (List String)
  | [] => .ok []
  | p :: rest =>
    -- must_get_template
    match resolve prefixes S p with
    | none => .error .templateNotFound
    | some r =>
      match get S r with
      | none => .error .panic
      | some pt =>
        match pt.findBlock b with
        | some pb =>
          if pb.callsSuper then
            match walkUp prefixes S b rest with
            | .ok l => .ok (pt.name :: l)
            | .error e => .error e
          else .ok [pt.name]
        | none => walkUp prefixes S b rest

/-- lineage of a block the template defines itself -/
def ownLineage (prefixes : List String) (S : List Tpl) (parents : List String) (t : Tpl) (b : BlockDef) :
    Except Err (List String) :=
  if b.callsSuper then
    match walkUp prefixes S b.name parents.reverse with
    | .ok l => .ok (t.name :: l)
    | .error e => .error e
  else .ok [t.name]

def ownBlocks (prefixes : List String) (S : List Tpl) (parents : List String) (t : Tpl) :
    List BlockDef → Except Err BlockMap
  | [] => .ok []
  | b :: bs =>
    match ownLineage prefixes S parents t b, ownBlocks prefixes S parents t bs with
    | .ok l, .ok m => .ok ((b.name, l) :: m)
    | .error e, _ => .error e
    | _, .error e => .error e

/-- second loop over `&self.templates` in the order `o2`: (tpl_blocks, some error was collected) -/
def loop2 (prefixes : List String) (S : List Tpl) (l1 : Loop1) :
    List String → Except Err (TplBlocks × Bool)
  | [] => .ok ([], false)
  | name :: rest =>
    match get S name, lookupParents l1.parents name with
    | some tpl, some parents =>
      let bad := hasRefErrors prefixes S l1.comps tpl || hasOrphanBlock S parents tpl
      match ownBlocks prefixes S parents tpl tpl.blocks with
      | .error e => .error e
      | .ok m =>
        match loop2 prefixes S l1 rest with
        | .error e => .error e
        | .ok (tb, bad') => .ok ((name, m) :: tb, bad || bad')
    | _, _ => .error .panic

/-! ## Inherited lineage (pass 2, tera.rs:697) -/

/-- `for (block_name, lineage) in parent_blocks { child.entry(block_name).or_insert(lineage) }` -/
def orInsertAll (child : BlockMap) : BlockMap → BlockMap
  | [] => child
  | (b, l) :: rest =>
    match blockLookup child b with
    | some _ => orInsertAll child rest
    | none => orInsertAll (child ++ [(b, l)]) rest

def tbSet (tb : TplBlocks) (k : String) (m : BlockMap) : TplBlocks :=
  tb.map (fun e => if e.1 == k then (e.1, m) else e)

/-- the inner loop: `for parent_name in parents.iter().rev()` (argument: nearest first) -/
def inheritFrom (tb : TplBlocks) (name : String) : List String → Except Err TplBlocks
  | [] => .ok tb
  | p :: rest =>
    match tbLookup tb p with
    | none => inheritFrom tb name rest
    | some pb =>
      match tbLookup tb name with
      | none => .error .panic           -- `tpl_blocks.get_mut(name).unwrap()`
      | some child => inheritFrom (tbSet tb name (orInsertAll child pb)) name rest

/-- `for (name, parents) in &tpl_parents` in the order `o3` -/
def pass2 (parents : List (String × List String)) : TplBlocks → List String → Except Err TplBlocks
  | tb, [] => .ok tb
  | tb, name :: rest =>
    match lookupParents parents name with
    | none => .error .panic
    | some ps =>
      match inheritFrom tb name ps.reverse with
      | .ok tb' => pass2 parents tb' rest
      | .error e => .error e

/-! ## The whole of `finalize_templates` up to the commit -/

structure Derived where
  parents : List (String × List String)
  sizes : List (String × Nat)
  lineage : TplBlocks
  /-- component name ↦ defining template -/
  comps : List (String × String)
  deriving Repr, DecidableEq

/-- `o2`, `o3`: iteration orders of `&self.templates` (second loop) and `&tpl_parents`. -/
def derive (prefixes : List String) (S : List Tpl) (o2 o3 : List String) : Except Err Derived :=
  match loop1 prefixes S {} (sortDedup (keys S)) with
  | .error e => .error e
  | .ok l1 =>
    match loop2 prefixes S l1 o2 with
    | .error e => .error e
    | .ok (tb, bad) =>
      match pass2 l1.parents tb o3 with
      | .error e => .error e
      | .ok tb' =>
        if bad then .error .msg
        else .ok { parents := l1.parents, sizes := l1.sizes, lineage := tb',
                   comps := l1.comps.map (fun e => (e.1, e.2.1)) }

/-- `set_templates_auto_escape`: a name is escaped iff it ends with one of the suffixes -/
def autoescapeFlag (suffixes : List String) (name : String) : Bool :=
  suffixes.any (fun s => s.toList.isSuffixOf name.toList)

end Tera.Reg
