/-
The wire form (`verif_hooks::bc_instr_wire` / `vm_env_wire`) of the typed chunks the composed model
stores: `wireV` is the inverse of `Vm.decodeWith`, parameterised by the payload encoders of
`Compiler.Enc`.  Used by the driver to print the model's environment and by
`Pipeline.storeChunk_wire` (Lemmas/PipelineWire.lean): the printed stored chunk is the optimiser
model applied to the printed compiled chunk.
-/
import TeraModel.Model.Pipeline
namespace Tera.Pipeline
open Tera Tera.Compiler

def mathName : Vm.MathOp → String
  | .mul => "Mul" | .div => "Div" | .floorDiv => "FloorDiv" | .mod => "Mod" | .minus => "Minus"
  | .power => "Power"

def cmpName : Vm.CmpOp → String
  | .lt => "LessThan" | .gt => "GreaterThan" | .le => "LessThanOrEqual" | .ge => "GreaterThanOrEqual"

/-- a typed instruction in the wire form of the dump hooks (`verif_hooks::bc_instr_wire`), with the
payload encoders of `Compiler.Enc`; inverse of `Vm.decodeWith` -/
def wireV (enc : Enc) : Vm.VInstr → Instr
  | .loadConst v => .other "LoadConst" (enc.value v)
  | .loadName n => .loadName n
  | .loadAttr a false => .loadAttr a
  | .loadAttr a true => .other "LoadAttrOpt" (enc.name a)
  | .binarySubscript false => .other "BinarySubscript" ""
  | .binarySubscript true => .other "BinarySubscriptOpt" ""
  | .slice false => .other "Slice" ""
  | .slice true => .other "SliceOpt" ""
  | .writeText t => .other "WriteText" (enc.name (String.ofList t))
  | .writeTop => .writeTop
  | .set n false => .other "Set" (enc.name n)
  | .set n true => .other "SetGlobal" (enc.name n)
  | .include_ n => .other "Include" (enc.name n)
  | .buildMap n => .other "BuildMap" (String.ofList (natDec n))
  | .buildList n => .other "BuildList" (String.ofList (natDec n))
  | .buildMapWithSpreads l => .other "BuildMapWithSpreads" (flagsText l)
  | .buildListWithSpreads l => .other "BuildListWithSpreads" (flagsText l)
  | .callFunction n => .other "CallFunction" (enc.name n)
  | .renderComponent n false => .other "RenderInlineComponent" (enc.name n)
  | .renderComponent n true => .other "RenderBodyComponent" (enc.name n)
  | .applyFilter n => .other "ApplyFilter" (enc.name n)
  | .runTest n => .other "RunTest" (enc.name n)
  | .renderBlock n => .other "RenderBlock" (enc.name n)
  | .jump t => .jump t
  | .popJumpIfFalse t => .popJumpIfFalse t
  | .jumpIfFalseOrPop t => .jumpIfFalseOrPop t
  | .jumpIfTrueOrPop t => .jumpIfTrueOrPop t
  | .capture => .other "Capture" ""
  | .endCapture => .other "EndCapture" ""
  | .startIterate kv false => .other "StartIterate" (boolText kv)
  | .startIterate kv true => .other "StartIterateComprehension" (boolText kv)
  | .iterate t => .iterate t
  | .storeLocal n => .other "StoreLocal" (enc.name n)
  | .storeDidNotIterate => .other "StoreDidNotIterate" ""
  | .break_ => .other "Break" ""
  | .popLoop => .other "PopLoop" ""
  | .appendToList => .other "AppendToList" ""
  | .math op => .other (mathName op) ""
  | .plus => .other "Plus" ""
  | .cmp op => .other (cmpName op) ""
  | .equal false => .other "Equal" ""
  | .equal true => .other "NotEqual" ""
  | .strConcat => .other "StrConcat" ""
  | .in_ => .other "In" ""
  | .not_ => .other "Not" ""
  | .negative => .other "Negative" ""
  | .loadPath p => .loadPath p
  | .writePath p => .writePath p

/-- the wire form of a stored chunk -/
def wireChunk (enc : Enc) (code : List Vm.VEntry) : List Entry := code.map fun e => (wireV enc e.1, e.2)

end Tera.Pipeline
