/-
Value-level model of the stack VM, part 1: typed instructions, chunks with spans, the interpreter
state, the environment (everything the Rust `Tera` instance holds that `interpret` reads) and the
outcome types.

Mirrors tera/src/parsing/instructions.rs (`Instruction`, `Chunk::get_span`, `get_span_at`,
`expand_span`), tera/src/vm/stack.rs (`Stack`, `SpanRange`, `combine_spans`), tera/src/vm/state.rs
(`State`, `dump_context`) and the fields of `VirtualMachine` (tera/src/vm/interpreter.rs:18-24).

`VInstr` is `Instruction` with typed payloads (Model/Instr.lean keeps the payload of most
instructions as the text of the dump hook); `decodeWith` turns an `Instr` of a real listing into a
`VInstr`.  The parser of `LoadConst` payloads is a parameter (the driver passes the wire-format
parser, which is a `partial def`; no theorem depends on which parser is used).
-/
import TeraModel.Model.Instr
import TeraModel.Model.InstrWire
import TeraModel.Model.WellFormed
import TeraModel.Model.Scope
import TeraModel.Model.Format
import TeraModel.Model.Component
namespace Tera
namespace Vm

/-! ### instructions -/

inductive MathOp where
  | mul | div | floorDiv | mod | minus | power
  deriving Repr, DecidableEq, Inhabited

inductive CmpOp where
  | lt | gt | le | ge
  deriving Repr, DecidableEq, Inhabited

/-- `Instruction` (instructions.rs:9-129).  Pairs of Rust variants that share one interpreter arm
and differ by a flag are one constructor with that flag:
`LoadAttr / LoadAttrOpt`, `BinarySubscript / …Opt`, `Slice / SliceOpt`, `Set / SetGlobal`,
`RenderInlineComponent / RenderBodyComponent`, `StartIterate / StartIterateComprehension`,
`Equal / NotEqual`, the six `math_binop!` and the four `ordering_binop!` instructions. -/
inductive VInstr where
  | loadConst (v : Value)
  | loadName (n : String)
  | loadAttr (attr : String) (opt : Bool)
  | binarySubscript (opt : Bool)
  | slice (opt : Bool)
  | writeText (t : List Char)
  | writeTop
  | set (n : String) (global : Bool)
  | include_ (n : String)
  | buildMap (n : Nat)
  | buildList (n : Nat)
  | buildMapWithSpreads (flags : List Bool)
  | buildListWithSpreads (flags : List Bool)
  | callFunction (n : String)
  | renderComponent (n : String) (hasBody : Bool)
  | applyFilter (n : String)
  | runTest (n : String)
  | renderBlock (n : String)
  | jump (t : Nat)
  | popJumpIfFalse (t : Nat)
  | jumpIfFalseOrPop (t : Nat)
  | jumpIfTrueOrPop (t : Nat)
  | capture
  | endCapture
  | startIterate (keyValue : Bool) (comprehension : Bool)
  | iterate (t : Nat)
  | storeLocal (n : String)
  | storeDidNotIterate
  | break_
  | popLoop
  | appendToList
  | math (op : MathOp)
  | plus
  | cmp (op : CmpOp)
  | equal (negated : Bool)
  | strConcat
  | in_
  | not_
  | negative
  | loadPath (p : List String)
  | writePath (p : List String)
  deriving Repr, Inhabited

abbrev VEntry := VInstr × List Span

/-- `Chunk`: instructions with their spans, and the name of the template it was compiled from. -/
structure Chunk where
  name : String
  code : List VEntry
  deriving Repr, Inhabited

/-- `Chunk::get_span(idx)`: the first span of instruction `idx` (only its presence matters). -/
def Chunk.hasSpan (c : Chunk) (idx : Nat) : Bool :=
  match c.code[idx]? with
  | some e => !e.2.isEmpty
  | none => false

/-- `Chunk::get_span_at(idx, k)`. -/
def Chunk.hasSpanAt (c : Chunk) (idx k : Nat) : Bool :=
  match c.code[idx]? with
  | some e => decide (k < e.2.length)
  | none => false

/-- `stack.rs` `SpanRange = RangeInclusive<u32>` of instruction indices. -/
abbrev SpanRange := Nat × Nat

/-- `combine_spans`. -/
def combineSpans (a b : SpanRange) : SpanRange := (min a.1 b.1, max a.2 b.2)

/-- `Chunk::expand_span(range).is_some()`: the first instruction of the range has a span and, when
the range is not a single instruction, so has the last. -/
def Chunk.expandSpan (c : Chunk) (r : SpanRange) : Bool :=
  c.hasSpan r.1 && (r.1 == r.2 || c.hasSpan r.2)

/-! ### decoding a real listing -/

def flagsOf (arg : String) : List Bool := arg.toList.map (· == 't')

def nameArg (arg : String) : Option String := InstrWire.nameOfHex arg

def boolArg (arg : String) : Option Bool :=
  if arg = "t" then some true else if arg = "f" then some false else none

def nullary (arg : String) (i : VInstr) : Option VInstr := if arg = "" then some i else none

/-- An `Instr` of a listing (Model/InstrWire.lean `parseInstr`) as a typed instruction.
`parseConst` reads the payload of `LoadConst`. -/
def decodeWith (parseConst : String → Option Value) : Instr → Option VInstr
  | .loadName n => some (.loadName n)
  | .loadAttr a => some (.loadAttr a false)
  | .writeTop => some .writeTop
  | .loadPath p => some (.loadPath p)
  | .writePath p => some (.writePath p)
  | .jump t => some (.jump t)
  | .popJumpIfFalse t => some (.popJumpIfFalse t)
  | .jumpIfFalseOrPop t => some (.jumpIfFalseOrPop t)
  | .jumpIfTrueOrPop t => some (.jumpIfTrueOrPop t)
  | .iterate t => some (.iterate t)
  | .other kind arg =>
    match kind with
    | "LoadConst" => (parseConst arg).map .loadConst
    | "LoadAttrOpt" => (nameArg arg).map (.loadAttr · true)
    | "BinarySubscript" => nullary arg (.binarySubscript false)
    | "BinarySubscriptOpt" => nullary arg (.binarySubscript true)
    | "Slice" => nullary arg (.slice false)
    | "SliceOpt" => nullary arg (.slice true)
    | "WriteText" => (Wire.strOfHex arg).map .writeText
    | "Set" => (nameArg arg).map (.set · false)
    | "SetGlobal" => (nameArg arg).map (.set · true)
    | "Include" => (nameArg arg).map .include_
    | "BuildMap" => (WellFormed.decNat arg.toList).map .buildMap
    | "BuildList" => (WellFormed.decNat arg.toList).map .buildList
    | "BuildMapWithSpreads" => some (.buildMapWithSpreads (flagsOf arg))
    | "BuildListWithSpreads" => some (.buildListWithSpreads (flagsOf arg))
    | "CallFunction" => (nameArg arg).map .callFunction
    | "RenderInlineComponent" => (nameArg arg).map (.renderComponent · false)
    | "RenderBodyComponent" => (nameArg arg).map (.renderComponent · true)
    | "ApplyFilter" => (nameArg arg).map .applyFilter
    | "RunTest" => (nameArg arg).map .runTest
    | "RenderBlock" => (nameArg arg).map .renderBlock
    | "Capture" => nullary arg .capture
    | "EndCapture" => nullary arg .endCapture
    | "StartIterate" => (boolArg arg).map (.startIterate · false)
    | "StartIterateComprehension" => (boolArg arg).map (.startIterate · true)
    | "StoreLocal" => (nameArg arg).map .storeLocal
    | "StoreDidNotIterate" => nullary arg .storeDidNotIterate
    | "Break" => nullary arg .break_
    | "PopLoop" => nullary arg .popLoop
    | "AppendToList" => nullary arg .appendToList
    | "Mul" => nullary arg (.math .mul)
    | "Div" => nullary arg (.math .div)
    | "FloorDiv" => nullary arg (.math .floorDiv)
    | "Mod" => nullary arg (.math .mod)
    | "Minus" => nullary arg (.math .minus)
    | "Power" => nullary arg (.math .power)
    | "Plus" => nullary arg .plus
    | "LessThan" => nullary arg (.cmp .lt)
    | "GreaterThan" => nullary arg (.cmp .gt)
    | "LessThanOrEqual" => nullary arg (.cmp .le)
    | "GreaterThanOrEqual" => nullary arg (.cmp .ge)
    | "Equal" => nullary arg (.equal false)
    | "NotEqual" => nullary arg (.equal true)
    | "StrConcat" => nullary arg .strConcat
    | "In" => nullary arg .in_
    | "Not" => nullary arg .not_
    | "Negative" => nullary arg .negative
    | _ => none

def decodeEntry (parseConst : String → Option Value) (e : Entry) : Option VEntry :=
  (decodeWith parseConst e.1).map fun i => (i, e.2)

def decodeCode (parseConst : String → Option Value) (c : List Entry) : Option (List VEntry) :=
  c.mapM (decodeEntry parseConst)

/-- number of values `BuildMapWithSpreads` pops -/
def spreadPops (flags : List Bool) : Nat := flags.foldl (fun n b => n + (if b then 1 else 2)) 0

/-- What the instruction does to the three stacks, in the vocabulary of the bytecode checker
(Model/WellFormed.lean `opOf`; `decode_opOf` in Lemmas/VmDecode.lean: the two agree on every
instruction that decodes). -/
def opV : VInstr → WellFormed.Op
  | .loadConst _ | .loadName _ | .loadPath _ => .push false
  | .loadAttr .. | .not_ | .negative | .callFunction _ => .popPush 1 false
  | .renderComponent _ hasBody => .popPush (if hasBody then 2 else 1) false
  | .binarySubscript _ | .applyFilter _ | .runTest _ | .math _ | .plus | .cmp _ | .equal _
  | .strConcat | .in_ => .popPush 2 false
  | .slice _ => .popPush 4 false
  | .writeText _ | .include_ _ | .renderBlock _ | .writePath _ => .nop
  | .writeTop | .set .. => .pop 1
  | .buildMap n => if n = 0 then .push false else .popPush (2 * n) false
  | .buildList n => .popPush n true
  | .buildMapWithSpreads flags => .popPush (spreadPops flags) false
  | .buildListWithSpreads flags => .popPush flags.length true
  | .jump t => .jump t
  | .popJumpIfFalse t => .popJumpIfFalse t
  | .jumpIfFalseOrPop t | .jumpIfTrueOrPop t => .jumpOrPop t
  | .capture => .capture
  | .endCapture => .endCapture
  | .startIterate .. => .startIterate
  | .iterate t => .iterate t
  | .storeLocal _ => .storeLocal
  | .storeDidNotIterate => .storeDidNotIterate
  | .break_ => .break_
  | .popLoop => .popLoop
  | .appendToList => .appendToList

/-! ### errors and outcomes -/

/-- Classes of rendering errors (messages are not modelled). -/
inductive RErr where
  /-- "Variable `x` is not defined." (`LoadPath` / `WritePath`, root undefined) -/
  | undefinedVariable
  /-- "Field `x` is not defined" (`LoadAttr`, `LoadPath`, `WritePath`) -/
  | undefinedField
  /-- "Tried to render a variable that is not defined" (`WriteTop`, `WritePath`) -/
  | undefinedRender
  /-- `BinarySubscript`: undefined base or index, `get_item` refused the index -/
  | index
  /-- `Slice`: undefined base or bound, non-integer bound, `Value::slice` refused -/
  | slice
  /-- `math_binop!`, `Plus`, `Negative` -/
  | math (e : NumErr)
  /-- "Cannot compare `a` with `b`" -/
  | notComparable
  /-- "Iteration not possible on type .." / "Key/value iteration is not possible on type .." -/
  | iteration
  /-- "`in` cannot be used on a container of type .." -/
  | inContainer
  /-- "Spread operator requires .." -/
  | spread
  /-- `as_key()?` in `BuildMap*`: "Not a valid key type" (not a `RenderingError`) -/
  | mapKey
  /-- a filter, test or function returned an error -/
  | call
  /-- "super() called outside of a block" -/
  | superOutsideBlock
  /-- "Tried to use super() in the top level block" -/
  | superTopLevel
  /-- `build_context` refused the arguments of a component call -/
  | componentBinding
  /-- "Maximum render recursion depth for components exceeded." -/
  | recursionLimit
  /-- "Block .. has no block lineage in template .." -/
  | noLineage
  /-- `must_get_template` failed (`Include`, base template of `render_to`) -/
  | templateNotFound
  /-- `Tera::render_block`: "Block .. not found in template .." -/
  | blockNotFound
  deriving Repr, DecidableEq, Inhabited

/-- What calling a registered filter / test / function gives. -/
inductive CallRes where
  | ok (v : Value)
  /-- `ErrorKind::InvalidArgument` (reported on the span of the receiver) -/
  | errInvalidArg
  /-- any other error (reported on the span of the call) -/
  | err
  | panic (site : String)
  /-- the model does not define this built-in on this input -/
  | unmodelled
  deriving Repr, Inhabited

/-! ### interpreter state -/

abbrev Slot := Value × SpanRange

/-- `State<'tera>` (vm/state.rs:19-46) without `chunk` (a parameter of the interpreter loop),
`escape_buffer` (scratch) and `filters` (part of `Env`), plus the `output` writer of the running
`interpret` call (`out`).  Stacks have their top at the head of the list.
`scope` = `for_loops`, `set_variables`, `include_parent`, `context`, `global_context`. -/
structure State where
  stack : List Slot
  scope : Scope
  /-- `capture_buffers` -/
  captures : List (List Char)
  out : List Char
  blockBuffer : List Char
  captureBlock : Option String
  /-- `(block name, lineage, level)` -/
  blocks : List (String × List Chunk × Nat)
  currentBlockName : Option String

/-- `State::new_with_chunk(context, chunk)` (+ `global_context`, `include_parent` as given). -/
def State.fresh (scope : Scope) : State :=
  { stack := [], scope := scope, captures := [], out := [], blockBuffer := [], captureBlock := none,
    blocks := [], currentBlockName := none }

/-- `WriteText` / the tail of `WriteTop`: into the innermost capture buffer when there is one,
otherwise to the output. -/
def State.write (st : State) (t : List Char) : State :=
  match st.captures with
  | [] => { st with out := st.out ++ t }
  | b :: bs => { st with captures := (b ++ t) :: bs }

def State.push (st : State) (v : Value) (r : SpanRange) : State := { st with stack := (v, r) :: st.stack }

/-- one context as a map value: later entries of the list are older (`Ctx.insert` conses) -/
def ctxInto (acc : Entries) (c : Ctx) : Entries :=
  c.reverse.foldl (fun a kv => mapInsert a (.str kv.1.toList) kv.2) acc

/-- `State::dump_context`: global context, then the user context, then `set_variables`, then the
assignments of every active loop from the outermost to the innermost; later ones win.  (The
includer's state is not looked at.) -/
def dumpContext (sc : Scope) : Value :=
  let acc : Entries := match sc.globalContext with
    | some g => ctxInto [] g
    | none => []
  let acc := ctxInto acc sc.context
  let acc := ctxInto acc sc.setVariables
  .map (sc.forLoops.reverse.foldl (fun a l => ctxInto a l.context) acc)

/-- `State::load_name` / the root of `LoadPath` and `WritePath`. -/
def lookupName (sc : Scope) (n : String) : Value :=
  if n = MAGICAL_DUMP_VAR then dumpContext sc else sc.getValue n

/-! ### environment -/

structure TemplateInfo where
  name : String
  /-- `Template.chunk` -/
  chunk : Chunk
  /-- `autoescape_enabled` -/
  autoescape : Bool
  /-- `parents` (nearest last; `render_to` starts from `parents.first()`) -/
  parents : List String
  /-- `block_lineage` -/
  blockLineage : List (String × List Chunk)
  /-- `Template.components` -/
  components : List (String × (Component.Def × Chunk))

/-- What `interpret` reads of the `Tera` instance. -/
structure Env where
  /-- `tera.templates` -/
  templates : List (String × TemplateInfo)
  /-- `tera.components` -/
  components : List (String × (Component.Def × Chunk))
  /-- is `name` a key of `tera.filters` / `tera.tests` / `tera.functions` (indexing panics otherwise) -/
  hasFilter : String → Bool
  hasTest : String → Bool
  hasFunction : String → Bool
  /-- `self.tera.filters[name].call(value, kwargs, state)`; kwargs are the string-keyed entries -/
  callFilter : String → Value → List (String × Value) → CallRes
  /-- `StoredFilter::is_safe` -/
  filterIsSafe : String → Bool
  callTest : String → Value → List (String × Value) → CallRes
  callFunction : String → List (String × Value) → CallRes
  functionIsSafe : String → Bool
  F : FloatOps
  fmtF64 : F64 → List Char

def assoc {α : Type} (k : String) : List (String × α) → Option α
  | [] => none
  | (k', v) :: rest => if k' = k then some v else assoc k rest

def Env.template (env : Env) (name : String) : Option TemplateInfo := assoc name env.templates

/-- The fields of `VirtualMachine` next to `tera`. -/
structure VmCtx where
  template : TemplateInfo
  autoescapeOverride : Option Bool
  /-- `component_recursion_depth` -/
  depth : Nat

/-- `autoescape_enabled()` -/
def VmCtx.autoescape (vm : VmCtx) : Bool := vm.autoescapeOverride.getD vm.template.autoescape

/-- `kwargs.into_map_arc()` then `Kwargs::get(name)` = `map.get(&Key::Str(name))`: the string-keyed
entries. -/
def kwargsOf : Entries → List (String × Value)
  | [] => []
  | (.str s, v) :: rest => (String.ofList s, v) :: kwargsOf rest
  | _ :: rest => kwargsOf rest

/-! ### results -/

/-- One turn of the interpreter loop. -/
inductive StepRes where
  | next (pc : Nat) (st : State)
  | err (e : RErr)
  | panic (site : String)
  | unmodelled (what : String)
  /-- a nested `interpret` ran out of fuel -/
  | outOfFuel

/-- One call of `interpret`. -/
inductive RunRes where
  /-- `Ok(())`, with the state the call leaves behind -/
  | done (st : State)
  | err (e : RErr)
  | panic (site : String)
  | unmodelled (what : String)
  | outOfFuel

/-- `Tera::render` / `Tera::render_block`. -/
inductive Outcome where
  | ok (text : List Char)
  | err (e : RErr)
  | panic (site : String)
  | unmodelled (what : String)
  | outOfFuel
  deriving Repr

end Vm
end Tera
