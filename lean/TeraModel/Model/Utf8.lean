/-
Byte-level text for the lexer / whitespace-filter / report models (C06, C08, C12).

A Rust `&str` is modelled as its UTF-8 bytes (`List Nat`, every byte < 256 when `valid`).
`isBoundary` is *exactly* `str::is_char_boundary` (core/src/str/mod.rs): index 0 and `len` are
boundaries, another index is one iff the byte there is not a continuation byte
(`(b as i8) >= -0x40`, i.e. b < 0x80 or b >= 0xC0).  `split_at`, `get(a..b)` and `&s[a..b]`
succeed iff their indices are boundaries; off a boundary the first and third panic.
`valid` is the UTF-8 well-formedness check of `core::str::from_utf8` (Unicode Table 3-7).
-/
namespace Tera

abbrev Bytes := List Nat

namespace Utf8

/-- continuation byte 10xxxxxx -/
def isCont (b : Nat) : Bool := decide (0x80 ≤ b) && decide (b < 0xC0)

/-- `core::str::from_utf8` acceptance (well-formed UTF-8, Unicode Table 3-7). -/
def valid : Bytes → Bool
  | [] => true
  | b0 :: t =>
    if b0 < 0x80 then valid t
    else if b0 < 0xC2 then false
    else if b0 < 0xE0 then
      match t with
      | b1 :: t1 => isCont b1 && valid t1
      | _ => false
    else if b0 < 0xF0 then
      match t with
      | b1 :: b2 :: t2 =>
        isCont b1 && isCont b2
          && (decide (b0 ≠ 0xE0) || decide (0xA0 ≤ b1))
          && (decide (b0 ≠ 0xED) || decide (b1 < 0xA0))
          && valid t2
      | _ => false
    else if b0 < 0xF5 then
      match t with
      | b1 :: b2 :: b3 :: t3 =>
        isCont b1 && isCont b2 && isCont b3
          && (decide (b0 ≠ 0xF0) || decide (0x90 ≤ b1))
          && (decide (b0 ≠ 0xF4) || decide (b1 < 0x90))
          && valid t3
      | _ => false
    else false

/-- the byte string starts on a char boundary: it is empty or its first byte is not a
continuation byte (`u8::is_utf8_char_boundary`) -/
def startsChar : Bytes → Bool
  | [] => true
  | b :: _ => !isCont b

/-- `str::is_char_boundary(n)` on the bytes `s`: 0 and `len` are boundaries, an index past the
end is not, another index is one iff the byte there is not a continuation byte. -/
def isBoundary (s : Bytes) (n : Nat) : Bool :=
  n == 0 || (decide (n ≤ s.length) && startsChar (s.drop n))

/-- `isBoundary` without computing `s.length` (what the compiled driver runs, see
`isBoundary_eq_fast`): look at the two bytes around position `n`. -/
def isBoundaryFast (s : Bytes) (n : Nat) : Bool :=
  n == 0 ||
    match s.drop (n - 1) with
    | [] => false
    | [_] => true
    | _ :: b :: _ => !isCont b

theorem isBoundaryFast_cons (a : Nat) (t : Bytes) (m : Nat) :
    isBoundaryFast (a :: t) (m + 2) = isBoundaryFast t (m + 1) := by
  simp [isBoundaryFast]

@[csimp] theorem isBoundary_eq_fast : @isBoundary = @isBoundaryFast := by
  funext s n
  induction s generalizing n with
  | nil =>
    cases n with
    | zero => simp [isBoundary, isBoundaryFast]
    | succ m => simp [isBoundary, isBoundaryFast]
  | cons a t ih =>
    cases n with
    | zero => simp [isBoundary, isBoundaryFast]
    | succ m =>
      cases m with
      | zero =>
        cases t with
        | nil => simp [isBoundary, isBoundaryFast, startsChar]
        | cons b t' => simp [isBoundary, isBoundaryFast, startsChar]
      | succ k =>
        rw [isBoundaryFast_cons, ← ih]
        simp [isBoundary]

/-- `s.split_at(n)`: `none` models the panic off a boundary (or past the end). -/
def splitAt? (s : Bytes) (n : Nat) : Option (Bytes × Bytes) :=
  if isBoundary s n then some (s.take n, s.drop n) else none

/-- `s.get(a..b)`: `None` when out of range, reversed or off a boundary (never panics). -/
def getRange (s : Bytes) (a b : Nat) : Option Bytes :=
  if a ≤ b ∧ b ≤ s.length ∧ isBoundary s a ∧ isBoundary s b then some ((s.drop a).take (b - a)) else none

theorem isBoundary_le_length {s : Bytes} {n : Nat} (h : isBoundary s n = true) : n ≤ s.length := by
  unfold isBoundary at h
  simp only [Bool.or_eq_true, beq_iff_eq, Bool.and_eq_true, decide_eq_true_eq] at h
  omega

/-- `getRange` without computing `s.length` (a boundary is within range anyway) -/
def getRangeFast (s : Bytes) (a b : Nat) : Option Bytes :=
  if a ≤ b ∧ isBoundary s a ∧ isBoundary s b then some ((s.drop a).take (b - a)) else none

@[csimp] theorem getRange_eq_fast : @getRange = @getRangeFast := by
  funext s a b
  unfold getRange getRangeFast
  by_cases h : a ≤ b ∧ isBoundary s a = true ∧ isBoundary s b = true
  · have := isBoundary_le_length h.2.2
    simp [h, this]
  · have : ¬ (a ≤ b ∧ b ≤ s.length ∧ isBoundary s a = true ∧ isBoundary s b = true) := by
      intro hc; exact h ⟨hc.1, hc.2.2.1, hc.2.2.2⟩
    simp [h, this]

/-- `&s[a..b]`: `none` models the panic. -/
def slice? (s : Bytes) (a b : Nat) : Option Bytes := getRange s a b

/-- `&s[a..]` -/
def sliceFrom? (s : Bytes) (a : Nat) : Option Bytes :=
  if a ≤ s.length ∧ isBoundary s a then some (s.drop a) else none

def sliceFromFast? (s : Bytes) (a : Nat) : Option Bytes :=
  if isBoundary s a then some (s.drop a) else none

@[csimp] theorem sliceFrom_eq_fast : @sliceFrom? = @sliceFromFast? := by
  funext s a
  unfold sliceFrom? sliceFromFast?
  by_cases h : isBoundary s a = true
  · have := isBoundary_le_length h
    simp [h, this]
  · simp [h]

/-- number of `char`s of a valid string = number of non-continuation bytes -/
def charCount (s : Bytes) : Nat := (s.filter (fun b => !isCont b)).length

/-- Decode the scalar at the head of a (valid) byte string: (code point, encoded length). -/
def decodeHead : Bytes → Option (Nat × Nat)
  | [] => none
  | b0 :: t =>
    if b0 < 0x80 then some (b0, 1)
    else if b0 < 0xE0 then
      match t with
      | b1 :: _ => some ((b0 % 0x20) * 64 + b1 % 64, 2)
      | _ => none
    else if b0 < 0xF0 then
      match t with
      | b1 :: b2 :: _ => some ((b0 % 0x10) * 4096 + (b1 % 64) * 64 + b2 % 64, 3)
      | _ => none
    else
      match t with
      | b1 :: b2 :: b3 :: _ => some ((b0 % 8) * 262144 + (b1 % 64) * 4096 + (b2 % 64) * 64 + b3 % 64, 4)
      | _ => none

/-- The 25 code points with the Unicode `White_Space` property = `char::is_whitespace`
(core/src/unicode: the table `WHITE_SPACE`); fixed by Unicode stability policy. -/
def isWhiteSpace (c : Nat) : Bool :=
  (decide (0x09 ≤ c) && decide (c ≤ 0x0D)) || c == 0x20 || c == 0x85 || c == 0xA0 || c == 0x1680
    || (decide (0x2000 ≤ c) && decide (c ≤ 0x200A)) || c == 0x2028 || c == 0x2029 || c == 0x202F
    || c == 0x205F || c == 0x3000

/-- `u8::is_ascii_whitespace`: space, \t, \n, \x0C, \r (not \x0B). -/
def isAsciiWs (b : Nat) : Bool := b == 0x20 || b == 0x09 || b == 0x0A || b == 0x0C || b == 0x0D

def isAsciiDigit (b : Nat) : Bool := decide (0x30 ≤ b) && decide (b ≤ 0x39)
def isAsciiAlpha (b : Nat) : Bool :=
  (decide (0x41 ≤ b) && decide (b ≤ 0x5A)) || (decide (0x61 ≤ b) && decide (b ≤ 0x7A))
def isAsciiAlnum (b : Nat) : Bool := isAsciiAlpha b || isAsciiDigit b

/-- `str::trim_start` (Unicode White_Space), fuel = number of bytes. -/
def trimStartFuel : Nat → Bytes → Bytes
  | 0, s => s
  | fuel + 1, s =>
    match decodeHead s with
    | some (c, n) => if isWhiteSpace c then trimStartFuel fuel (s.drop n) else s
    | none => s

def trimStart (s : Bytes) : Bytes := trimStartFuel s.length s

/-- Length of `s.trim_end()`: one left-to-right pass remembering the position just after the
last scalar that is not White_Space (`pos` = bytes consumed so far, `keep` = that position). -/
def trimEndLen : Nat → Bytes → Nat → Nat → Nat
  | 0, _, _, keep => keep
  | fuel + 1, s, pos, keep =>
    match s with
    | [] => keep
    | _ =>
      match decodeHead s with
      | some (c, n) => trimEndLen fuel (s.drop n) (pos + n) (if isWhiteSpace c then keep else pos + n)
      | none => pos + s.length

/-- `str::trim_end` (Unicode White_Space). -/
def trimEnd (s : Bytes) : Bytes := s.take (trimEndLen s.length s 0 0)

end Utf8
end Tera
