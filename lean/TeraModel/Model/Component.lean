/-
Components (C05): mirror of

  * `ComponentDefinition::build_context`, `Type::matches_value`, `Type::from_value`
    (tera/src/parsing/ast.rs) and the type inference of `parse_component_definition`
    (tera/src/parsing/parser.rs: `if kwarg.typ.is_none() { kwarg.typ = Type::from_value(&val) }`);
  * the component table of `Tera::finalize_templates` with `get_template_priority`
    (tera/src/tera.rs);
  * the recursion guard of `VirtualMachine::render_component` and the counter carried by
    `render_include` (tera/src/vm/interpreter.rs).

The three type tables and the recursion limit come from `Generated/ComponentLimits.lean`, which the
translator extracts from the Rust source on every run.
-/
import TeraModel.Model.Value
import TeraModel.Generated.ComponentLimits
namespace Tera.Component

/-- `ValueKind` name of a value. -/
def kindName : Value → String
  | .undef => "Undefined" | .none => "None" | .bool _ => "Bool" | .u64 _ => "U64"
  | .i64 _ => "I64" | .f64 _ => "F64" | .u128 _ => "U128" | .i128 _ => "I128"
  | .str .. => "String" | .arr _ => "Array" | .map _ => "Map" | .bytes _ => "Bytes"

/-- A `Type` (tera/src/parsing/ast.rs), by the name of its variant. -/
abbrev Ty := String

def lookupStr {α : Type} (k : String) : List (String × α) → Option α
  | [] => none
  | (k', v) :: rest => if k' == k then some v else lookupStr k rest

/-- `Type::from_str`: the type names a signature may use. -/
def tyOfName (n : String) : Option Ty := lookupStr n Generated.componentTypeNames

/-- `Type::matches_value`. -/
def matchesValue (t : Ty) (v : Value) : Bool :=
  match lookupStr t Generated.typeMatchesKinds with
  | some ks => ks.contains (kindName v)
  | none => false

/-- `Type::from_value` (none for `none` / `undefined`). -/
def fromValue (v : Value) : Option Ty := lookupStr (kindName v) Generated.typeInferredFrom

/-- One declared parameter as written: `name[: type][= default]`. -/
structure Param where
  name : String
  declared : Option Ty
  dflt : Option Value
  deriving Repr, Inhabited

/-- `ComponentArgument.typ` after parsing: the declared type, else the type inferred from the
default value. -/
def Param.ty (p : Param) : Option Ty :=
  match p.declared with
  | some t => some t
  | none => p.dflt.bind fromValue

/-- `ComponentArgument::type_matches`. -/
def Param.typeMatches (p : Param) (v : Value) : Bool :=
  match p.ty with
  | some t => matchesValue t v
  | none => true

/-- `ComponentDefinition`: `kwargs` is a `BTreeMap`, so `params` is in name order. -/
structure Def where
  params : List Param
  rest : Option String
  deriving Repr, Inhabited

inductive BindErr where
  /-- "Unknown argument(s) … in component call." -/
  | unknown
  /-- "Argument `k` missing." -/
  | missing
  /-- "Component argument `k` (type: …) does not match expected type" -/
  | mismatch
  deriving Repr, DecidableEq, Inhabited

/-- `kwargs.keys().filter_map(|k| k.as_str())` with `kwargs.get(&Key::Str(key))`: only the
string-keyed entries of the kwargs map take part; an entry that arrived through a spread under a
bool / integer key is silently dropped (it is neither bound, nor collected in `rest`, nor
reported as unknown). -/
def strEntries : List (Key × Value) → List (String × Value)
  | [] => []
  | (.str s, v) :: rest => (String.ofList s, v) :: strEntries rest
  | _ :: rest => strEntries rest

/-- the second loop of `build_context`: declared parameters in `BTreeMap` order -/
def bindParams : List Param → List (String × Value) → Except BindErr (List (String × Value))
  | [], _ => .ok []
  | p :: ps, sup =>
    match lookupStr p.name sup with
    | some v =>
      if p.typeMatches v then
        match bindParams ps sup with
        | .ok r => .ok ((p.name, v) :: r)
        | .error e => .error e
      else .error .mismatch
    | none =>
      match p.dflt with
      | some d =>
        match bindParams ps sup with
        | .ok r => .ok ((p.name, d) :: r)
        | .error e => .error e
      | none => .error .missing

def declares (d : Def) (k : String) : Bool := d.params.any (fun p => p.name == k)

/-- supplied string-keyed arguments that are not declared parameters -/
def extras (d : Def) (sup : List (String × Value)) : List (String × Value) :=
  sup.filter (fun e => !declares d e.1)

def restEntry (d : Def) (sup : List (String × Value)) : List (String × Value) :=
  match d.rest with
  | some r => [(r, .map ((extras d sup).map (fun e => (Key.str e.1.toList, e.2))))]
  | none => []

def bodyEntry : Option Value → List (String × Value)
  | some b => [("body", b)]
  | none => []

/-- `ComponentDefinition::build_context`: the context a component body is rendered with, as an
association list (declared parameters in name order, then the rest map, then `body`). -/
def buildContext (d : Def) (kwargs : List (Key × Value)) (body : Option Value) :
    Except BindErr (List (String × Value)) :=
  let sup := strEntries kwargs
  if d.rest.isNone && !(extras d sup).isEmpty then .error .unknown
  else
    match bindParams d.params sup with
    | .error e => .error e
    | .ok bound => .ok (bound ++ restEntry d sup ++ bodyEntry body)

/-! ### the kwargs map a call site denotes -/

/-- One attribute of a component call (`parse_component_attributes`), its value already
evaluated: `name="str"`, `name={expr}` and the shorthand `name` are key/value entries, `{...expr}`
is a spread (of a map; anything else is the render error "Spread operator requires a map"). -/
inductive Attr where
  | kv (key : String) (v : Value)
  | spread (entries : List (Key × Value))
  deriving Repr, Inhabited

/-- `result_map.entry(k).or_insert(v)` -/
def insertIfAbsent (m : List (Key × Value)) (k : Key) (v : Value) : List (Key × Value) :=
  if m.any (fun e => e.1 == k) then m else m ++ [(k, v)]

def addAttr (m : List (Key × Value)) : Attr → List (Key × Value)
  | .kv k v => insertIfAbsent m (.str k.toList) v
  | .spread es => es.foldl (fun m e => insertIfAbsent m e.1 e.2) m

/-- `BuildMapWithSpreads`: "we process the values from right to left because right will always
win against the same key/val on the left" (`BuildMap`, used when there is no spread, collects
into a `HashMap`, where the last insertion of a key wins: the same map). -/
def kwargsOf (attrs : List Attr) : List (Key × Value) := attrs.reverse.foldl addAttr []

/-! ### component table by prefix priority -/

/-- `Tera::get_template_priority`: 0 when no fallback prefix matches, else 1 + index of the first
matching prefix. -/
def priorityFrom (i : Nat) : List String → String → Nat
  | [], _ => 0
  | p :: ps, name => if name.startsWith p then i + 1 else priorityFrom (i + 1) ps name

def priority (prefixes : List String) (name : String) : Nat := priorityFrom 0 prefixes name

/-- `component_sources`: component name ↦ (defining template, its priority) -/
abbrev Table := List (String × (String × Nat))

def Table.set (t : Table) (c : String) (v : String × Nat) : Table :=
  match t with
  | [] => [(c, v)]
  | (c', v') :: rest => if c' == c then (c, v) :: rest else (c', v') :: Table.set rest c v

/-- One `(component, template)` definition met by the first loop of `finalize_templates`: lowest
number wins, equal ⇒ error ("Component … is defined in both …"). -/
def addDef (prio : String → Nat) (t : Table) (c tpl : String) : Option Table :=
  match lookupStr c t with
  | none => some (t.set c (tpl, prio tpl))
  | some (_, existing) =>
    if prio tpl < existing then some (t.set c (tpl, prio tpl))
    else if prio tpl > existing then some t
    else none

/-- All definitions, in the order the loop meets them (templates in sorted-name order). -/
def buildTable (prio : String → Nat) : Table → List (String × String) → Option Table
  | t, [] => some t
  | t, (c, tpl) :: rest =>
    match addDef prio t c tpl with
    | some t' => buildTable prio t' rest
    | none => none

/-! ### nesting depth of component renders -/

/-- What a chunk does, as far as nesting is concerned. -/
inductive Node where
  | text
  /-- `Render{Inline,Body}Component` -/
  | comp (name : String)
  /-- `Include` -/
  | incl (name : String)
  deriving Repr, Inhabited

structure World where
  comp : String → Option (List Node)
  tpl : String → Option (List Node)

inductive RenderErr where
  /-- "Maximum render recursion depth for components exceeded." -/
  | recursionLimit
  | unknownName
  | outOfFuel
  deriving Repr, DecidableEq, Inhabited

def MAX : Nat := Generated.MAX_COMPONENT_RECURSION_DEPTH

/-- Interpret the nodes of a chunk in a VM whose `component_recursion_depth` is `depth`.
Returns the largest `component_recursion_depth` of any VM that interpreted a chunk, and the
outcome.  `render_component`: `depth + 1 > MAX` ⇒ error, else a VM with `depth + 1`;
`render_include`: a VM with the same `depth`. -/
def runNodes (w : World) : Nat → Nat → List Node → Nat × Except RenderErr Unit
  | 0, depth, _ => (depth, .error .outOfFuel)
  | _ + 1, depth, [] => (depth, .ok ())
  | fuel + 1, depth, .text :: rest => runNodes w fuel depth rest
  | fuel + 1, depth, .comp c :: rest =>
    if depth + 1 > MAX then (depth, .error .recursionLimit)
    else
      match w.comp c with
      | none => (depth, .error .unknownName)
      | some body =>
        match runNodes w fuel (depth + 1) body with
        | (m, .ok ()) =>
          let r := runNodes w fuel depth rest
          (max m r.1, r.2)
        | (m, .error e) => (m, .error e)
  | fuel + 1, depth, .incl t :: rest =>
    match w.tpl t with
    | none => (depth, .error .unknownName)
    | some body =>
      match runNodes w fuel depth body with
      | (m, .ok ()) =>
        let r := runNodes w fuel depth rest
        (max m r.1, r.2)
      | (m, .error e) => (m, .error e)

end Tera.Component
