/-
Model of the expression part of the hand-written Pratt parser, tera/src/parsing/parser.rs, over the
token stream the lexer hands it (`Model/Tok.lean`).

Rust function                      model
  next_or_error                    `nextOrError`
  expect_token!                    `expect`, `expectIdent`, `expectKw`
  inner_parse_expression           `innerParseExpression`  (the shared depth counter is the
                                   structural-recursion argument: `budget = MAX_RECURSION_DEPTH -
                                   recursion_depth`; budget 0 is the "expression is too complex" error)
  parse_expr_bp                    `parseExprBp` = `parsePrefix` then `prattLoop`
  parse_ident                      `parseIdent`, `identChain`
  parse_subscript                  `parseSubscript`
  parse_kwargs                     `parseKwargs`, `kwargsLoop`
  parse_filter, parse_test         `parseFilter`, `parseTest`
  parse_map, parse_array           `parseMap`/`mapLoop`, `parseArray`/`arrayLoop`
  parse_list_comprehension         `parseListComprehension`
  parse_inline_component_call,     `parseInlineComponentCall`, `dottedName`, `componentAttributes`
  parse_dotted_component_name,
  parse_component_attributes

Every recursive call of the Rust goes through `inner_parse_expression`, i.e. one level deeper; the
model passes that next level around as `rec : Nat → P Expr` (argument: `min_bp`).  The `loop {}`s and
the `while let` of the Rust are recursion on an iteration budget `n` (initialised to the number of
remaining tokens + 1, every iteration consumes at least one token); running out of it is the
model-only outcome `Res.fuel`, which never happens on the inputs of the theorems (proved there) and
is reported as a disagreement by the driver.

The binding powers, limits, the token to operator map and the `loop.*` table are the GENERATED
`Tera.Gen.*` definitions (translator/tables/binding_powers.py); the powers are a parameter
(`BpTable`) so that theorems can be stated for every table satisfying `TableOK`.

Outcomes: `ok ast` | `err` (any `Err(..)`: syntax error, unexpected end of input, lexer error; the
class is the same `ErrorKind::SyntaxError`) | `panic site` (`expect`/`unreachable!` in the Rust).
-/
import TeraModel.Model.Ast
import TeraModel.Model.Tok
import TeraModel.Generated.BindingPowers
namespace Tera.Parser
open Tera

/-- the three binding-power definitions of parser.rs -/
structure BpTable where
  binary : BinaryOperator → Nat × Nat
  unary : UnaryOperator → Nat
  ternary : Nat

/-- what parser.rs says now -/
def genTable : BpTable := ⟨Gen.binaryBindingPower, Gen.unaryBindingPower, Gen.TERNARY_L_BP⟩

structure Cfg where
  bp : BpTable
  /-- `MAX_DIMENSION_ARRAY` -/
  maxArray : Nat
  /-- `MAX_NUM_LEFT_BRACKETS` -/
  maxBrackets : Nat
  /-- `self.is_in_loop()`: constant while one expression is parsed -/
  inLoop : Bool

def genCfg (inLoop : Bool) : Cfg :=
  ⟨genTable, Gen.MAX_DIMENSION_ARRAY, Gen.MAX_NUM_LEFT_BRACKETS, inLoop⟩

/-- the mutable parser fields an expression parse touches; `toks.head?` is `self.next`, the second
element is `self.lexer.peek()` -/
structure PState where
  toks : List Tok
  arrayDim : Nat
  brackets : Nat
  deriving Repr, DecidableEq

inductive Res (α : Type) where
  | ok (a : α) (s : PState)
  | err
  | panic (site : String)
  | fuel
  deriving Repr

abbrev P (α : Type) := PState → Res α

namespace P
@[inline] def pure (a : α) : P α := fun s => .ok a s
@[inline] def bind (x : P α) (f : α → P β) : P β := fun s =>
  match x s with
  | .ok a s' => f a s'
  | .err => .err
  | .panic m => .panic m
  | .fuel => .fuel
def err : P α := fun _ => .err
def fuel : P α := fun _ => .fuel
def panic (m : String) : P α := fun _ => .panic m
instance : Monad P where
  pure := P.pure
  bind := P.bind
end P

/-- `matches!(self.next, Some(Ok((t, _))))` -/
def headIs (t : Tok) : P Bool := fun s => .ok (s.toks.head? == some t) s

/-- `self.next` when it is `Some(Ok(..))` -/
def peekOk : P (Option Tok) := fun s =>
  match s.toks with
  | [] => .ok none s
  | .error :: _ => .ok none s
  | t :: _ => .ok (some t) s

/-- `next_or_error` -/
def nextOrError : P Tok := fun s =>
  match s.toks with
  | [] => .err
  | .error :: _ => .err
  | t :: rest => .ok t { s with toks := rest }

/-- `expect_token!(self, t, ..)` -/
def expect (t : Tok) : P Unit := do
  let x ← nextOrError
  if x = t then pure () else P.err

/-- `expect_token!(self, Token::Ident(id) => id, "identifier")` -/
def expectIdent : P String := do
  let x ← nextOrError
  match x with
  | .ident s => pure s
  | _ => P.err

/-- iteration budget for the loops: remaining tokens + 1 -/
def loopFuel : P Nat := fun s => .ok (s.toks.length + 1) s

/-! ### kwargs, filters, tests -/

/-- the `loop {}` of `parse_kwargs`; `acc` is kept sorted by name -/
def kwargsLoop (rec : Nat → P Expr) : Nat → List (String × Expr) → P (List (String × Expr))
  | 0, _ => P.fuel
  | n+1, acc => do
    if (← headIs .rightParen) then pure acc
    else do
      if !acc.isEmpty then expect .comma
      if (← headIs .rightParen) then pure acc
      else do
        let name ← expectIdent
        if acc.any (fun p => p.1 == name) then P.err
        else do
          expect .assign
          let v ← rec 0
          kwargsLoop rec n (Expr.insertKwarg name v acc)

/-- `parse_kwargs` -/
def parseKwargs (rec : Nat → P Expr) : P (List (String × Expr)) := do
  expect .leftParen
  let n ← loopFuel
  let kw ← kwargsLoop rec n []
  expect .rightParen
  pure kw

/-- name and optional kwargs shared by `parse_filter` and `parse_test` -/
def parseNameArgs (rec : Nat → P Expr) : P (String × List (String × Expr)) := do
  let name ← expectIdent
  if (← headIs .leftParen) then do
    let kw ← parseKwargs rec
    pure (name, kw)
  else pure (name, [])

/-- `parse_filter` -/
def parseFilter (rec : Nat → P Expr) (e : Expr) : P Expr := do
  let (name, kw) ← parseNameArgs rec
  pure (.filter e name kw)

/-- `parse_test` -/
def parseTest (rec : Nat → P Expr) (e : Expr) : P Expr := do
  let (name, kw) ← parseNameArgs rec
  pure (.test e name kw)

/-! ### subscripts and identifier chains -/

/-- first part of `parse_subscript`: "If we don't have a colon (eg `::-1`), parse an expr first" -/
def subscriptStart (rec : Nat → P Expr) : P (Option Expr) := do
  if !(← headIs .colon) then do
    let x ← rec 0
    pure (some x)
  else pure none

/-- second part of `parse_subscript`: "Now, it could be slice indexing pattern if there is a `:`";
returns (`slice`, `end`, `step`) -/
def subscriptSlice (rec : Nat → P Expr) : P (Bool × Option Expr × Option Expr) := do
  if (← headIs .colon) then do
    expect .colon
    -- If the next character is not `:` or `]`, parse the expr
    let stop ← (do
      if !(← headIs .colon) && !(← headIs .rightBracket) then do
        let x ← rec 0
        pure (some x)
      else pure none : P (Option Expr))
    -- Then check if there is a step value. If there is a `:`, there _must_ be a value
    let step ← (do
      if (← headIs .colon) then do
        expect .colon
        let x ← rec 0
        pure (some x)
      else pure none : P (Option Expr))
    pure (true, stop, step)
  else pure (false, none, none)

/-- `parse_subscript` -/
def parseSubscript (C : Cfg) (rec : Nat → P Expr) (e : Expr) : P Expr := do
  let isOptional ← headIs .questionMarkLeftBracket
  if isOptional then expect .questionMarkLeftBracket else expect .leftBracket
  let brackets ← (fun s => .ok (s.brackets + 1) { s with brackets := s.brackets + 1 } : P Nat)
  if brackets > C.maxBrackets then P.err
  else do
    let start ← subscriptStart rec
    let (slice, stop, step) ← subscriptSlice rec
    expect .rightBracket
    let out ← (if slice then pure (.slice e start stop step isOptional)
      else match start with
        | some s => pure (.getItem e s isOptional)
        | none => P.panic "parser.rs:277 expect(to have an expr)" : P Expr)
    (fun s => .ok () { s with brackets := s.brackets - 1 } : P Unit)
    pure out

/-- the `loop {}` of `parse_ident` -/
def identChain (C : Cfg) (rec : Nat → P Expr) (ident : String) : Nat → Expr → P Expr
  | 0, _ => P.fuel
  | n+1, e => do
    match (← peekOk) with
    | some .dot | some .questionMarkDot => do
      let isOptional ← headIs .questionMarkDot
      let _ ← nextOrError
      let attr ← expectIdent
      if ident == "loop" && C.inLoop then
        match Gen.loopFields.find? (fun p => p.1 == attr) with
        | some (_, newName) => identChain C rec ident n (.var newName)
        | none => P.err
      else identChain C rec ident n (.getAttr e attr isOptional)
    | some .leftBracket | some .questionMarkLeftBracket => do
      let e' ← parseSubscript C rec e
      identChain C rec ident n e'
    | some .leftParen => P.err   -- function calls only at the first element of a chain
    | _ => pure e

/-- `parse_ident` -/
def parseIdent (C : Cfg) (rec : Nat → P Expr) (ident : String) : P Expr := do
  if (← headIs .leftParen) then do
    let kw ← parseKwargs rec
    pure (.functionCall ident kw)
  else do
    let n ← loopFuel
    identChain C rec ident n (.var ident)

/-! ### map and array literals, list comprehensions -/

/-- constant folding of a literal-only map (`parse_map`, `if literal_only`) -/
def foldConstMap (entries : List MapEntry) : List (Key × Value) :=
  entries.foldl (fun m e => match e with
    | .keyValue k (.const v) => Value.mapInsert k v m
    | _ => m) []

/-- the `loop {}` of `parse_map`: accumulates entries (in order) and `literal_only` -/
def mapLoop (rec : Nat → P Expr) : Nat → List MapEntry → Bool → P (List MapEntry × Bool)
  | 0, _, _ => P.fuel
  | n+1, acc, lit => do
    if (← headIs .rightBrace) then pure (acc, lit)
    else do
      if !acc.isEmpty then expect .comma
      if (← headIs .rightBrace) then pure (acc, lit)
      else if (← headIs .spread) then do
        expect .spread
        let x ← rec 0
        mapLoop rec n (acc ++ [.spread x]) false
      else do
        let k ← nextOrError
        let key ← (match k with
          | .str s => pure (Key.str s.toList)
          | .integer i => pure (Key.i64 i)
          | .bool b => pure (Key.bool b)
          | _ => P.err : P Key)
        expect .colon
        let v ← rec 0
        mapLoop rec n (acc ++ [.keyValue key v]) (lit && v.isLiteral)

/-- `parse_map` (the `{` is already consumed) -/
def parseMap (rec : Nat → P Expr) : P Expr := do
  let n ← loopFuel
  let (entries, lit) ← mapLoop rec n [] true
  expect .rightBrace
  if lit then pure (.const (.map (foldConstMap entries)))
  else pure (.map entries)

/-- `Array::as_const` -/
def arrayAsConst : List ArrayEntry → Option (List Value)
  | [] => some []
  | .item (.const v) :: rest => (arrayAsConst rest).map (fun vs => v :: vs)
  | _ => none

/-- `parse_list_comprehension` (called with `[ expr` consumed, `for` next) -/
def parseListComprehension (C : Cfg) (rec : Nat → P Expr) (e : Expr) : P Expr := do
  expect (.ident "for")
  let value ← expectIdent
  if Gen.RESERVED_NAMES.contains value then P.err
  else do
    let (key, value) ← (do
      if (← headIs .comma) then do
        let _ ← nextOrError
        let val ← expectIdent
        if Gen.RESERVED_NAMES.contains val then P.err
        else pure (some value, val)
      else pure (none, value) : P (Option String × String))
    expect (.ident "in")
    let target ← rec (C.bp.ternary + 1)
    let cond ← (do
      if (← headIs (.ident "if")) then do
        let _ ← nextOrError
        let c ← rec (C.bp.ternary + 1)
        pure (some c)
      else pure none : P (Option Expr))
    if (← headIs (.ident "for")) then P.err
    else do
      expect .rightBracket
      pure (.listComprehension e key value target cond)

/-- result of the array loop: the items, or an early return with a list comprehension -/
inductive ArrayLoopOut where
  | items (xs : List ArrayEntry) (lit : Bool)
  | comprehension (e : Expr)

/-- the `loop {}` of `parse_array` -/
def arrayLoop (C : Cfg) (rec : Nat → P Expr) : Nat → List ArrayEntry → Bool → P ArrayLoopOut
  | 0, _, _ => P.fuel
  | n+1, acc, lit => do
    if (← headIs .rightBracket) then pure (.items acc lit)
    else do
      if !acc.isEmpty then expect .comma
      if (← headIs .rightBracket) then pure (.items acc lit)
      else if (← headIs .spread) then do
        expect .spread
        let x ← rec 0
        arrayLoop C rec n (acc ++ [.spread x]) false
      else do
        let x ← rec 0
        if acc.isEmpty && (← headIs (.ident "for")) then do
          (fun s => .ok () { s with arrayDim := s.arrayDim - 1 } : P Unit)
          let lc ← parseListComprehension C rec x
          pure (.comprehension lc)
        else arrayLoop C rec n (acc ++ [.item x]) (lit && x.isLiteral)

/-- `parse_array` (the `[` is already consumed) -/
def parseArray (C : Cfg) (rec : Nat → P Expr) : P Expr := do
  let dim ← (fun s => .ok (s.arrayDim + 1) { s with arrayDim := s.arrayDim + 1 } : P Nat)
  if dim > C.maxArray then P.err
  else do
    let n ← loopFuel
    match (← arrayLoop C rec n [] true) with
    | .comprehension lc => pure lc
    | .items xs lit => do
      (fun s => .ok () { s with arrayDim := s.arrayDim - 1 } : P Unit)
      expect .rightBracket
      if lit then
        match arrayAsConst xs with
        | some vs => pure (.const (.arr vs))
        | none => pure (.array xs)
      else pure (.array xs)

/-! ### inline component calls `<name attr=.. {...spread}/>` -/

/-- the `while` of `parse_dotted_component_name` -/
def dottedNameLoop : Nat → String → P String
  | 0, _ => P.fuel
  | n+1, name => do
    if (← headIs .dot) then do
      let _ ← nextOrError
      let part ← expectIdent
      dottedNameLoop n (name ++ "." ++ part)
    else pure name

/-- `parse_dotted_component_name` -/
def dottedName : P String := do
  let first ← expectIdent
  let n ← loopFuel
  dottedNameLoop n first

/-- the `loop {}` of `parse_component_attributes` -/
def componentAttributes (rec : Nat → P Expr) : Nat → List MapEntry → P (List MapEntry)
  | 0, _ => P.fuel
  | n+1, acc => do
    match (← peekOk) with
    | some (.ident _) => do
      let name ← expectIdent
      let value ← (do
        if (← headIs .assign) then do
          let _ ← nextOrError
          match (← peekOk) with
          | some (.str s) => do
            let _ ← nextOrError
            pure (.const (.str false s.toList))
          | some .leftBrace => do
            let _ ← nextOrError
            let x ← rec 0
            expect .rightBrace
            pure x
          | _ => P.err
        else pure (.var name) : P Expr)
      componentAttributes rec n (acc ++ [.keyValue (.str name.toList) value])
    | some .leftBrace => do
      let _ ← nextOrError
      expect .spread
      let x ← rec 0
      expect .rightBrace
      componentAttributes rec n (acc ++ [.spread x])
    | _ => pure acc

/-- `parse_inline_component_call` (the `<` is consumed, an identifier is next) -/
def parseInlineComponentCall (rec : Nat → P Expr) : P Expr := do
  let name ← dottedName
  let n ← loopFuel
  let kwargs ← componentAttributes rec n []
  match (← peekOk) with
  | some .div => do
    let _ ← nextOrError
    expect .greaterThan
    pure (.componentCall name kwargs [] true)
  | _ => P.err   -- `>`: components with a body need the tag syntax; anything else: error

/-! ### the Pratt parser proper -/

/-- the arms of `match token` in the Pratt loop -/
inductive LoopTok where
  | notKw
  | leftBracket
  | ifKw
  | binop (op : BinaryOperator)
  | other
  deriving Repr, DecidableEq

def classify (t : Tok) : LoopTok :=
  if t = .ident "not" then .notKw
  else if t = .leftBracket then .leftBracket
  else if t = .ident "if" then .ifKw
  else match Gen.binaryOperatorOfTok t with
    | some op => .binop op
    | none => .other

def isUnary : Expr → Bool
  | .unary .. => true
  | _ => false

/-- the operand part of one loop iteration, after the operator (and a possible `not` of `is not`)
has been consumed -/
def parseOperand (rec : Nat → P Expr) (op : BinaryOperator) (rBp : Nat) (lhs : Expr) : P Expr :=
  match op with
  | .Is => parseTest rec lhs
  | .Pipe => parseFilter rec lhs
  | _ => do
    let rhs ← rec rBp
    -- unary operators are not allowed after a ~
    if op = .StrConcat && isUnary rhs then P.err
    else pure (.binary op lhs rhs)

/-- the `while let Some(Ok((ref token, _))) = self.next` loop of `parse_expr_bp` -/
def prattLoop (C : Cfg) (rec : Nat → P Expr) (minBp : Nat) : Nat → Expr → Bool → P Expr
  | 0, _, _ => P.fuel
  | n+1, lhs, negated => do
    match (← peekOk) with
    | none => pure lhs
    | some tok =>
      match classify tok with
      | .other => pure lhs
      | .notKw =>
        -- `not` is only valid for `not in` here, checked against `min_bp`
        if (C.bp.binary .In).1 < minBp then pure lhs
        else do
          let nextIsIn ← (fun s => .ok (s.toks.tail.head? == some (.ident "in")) s : P Bool)
          let _ ← nextOrError
          if !nextIsIn then P.err
          else prattLoop C rec minBp n lhs true
      | .leftBracket => do
        let lhs' ← parseSubscript C rec lhs
        prattLoop C rec minBp n lhs' negated
      | .ifKw =>
        if C.bp.ternary < minBp then pure lhs
        else do
          let _ ← nextOrError
          let c ← rec 0
          expect (.ident "else")
          let f ← rec 0
          pure (.ternary c lhs f)
      | .binop op =>
        if (C.bp.binary op).1 < minBp then pure lhs
        else do
          let _ ← nextOrError
          -- Whether we get `is not`
          let negated' ← (do
            if op = .Is && (← headIs (.ident "not")) then do
              let _ ← nextOrError
              pure true
            else pure negated : P Bool)
          let lhs' ← parseOperand rec op (C.bp.binary op).2 lhs
          if negated' then prattLoop C rec minBp n (.unary .Not lhs') false
          else prattLoop C rec minBp n lhs' false

/-- the prefix part of `parse_expr_bp` (everything before the `while let`) -/
def parsePrefix (C : Cfg) (rec : Nat → P Expr) : P Expr := do
  let token ← nextOrError
  match token with
  | .integer i => pure (.const (.i64 i))
  | .float f => pure (.const (.f64 f))
  | .str s => pure (.const (.str false s.toList))
  | .bool b => pure (.const (.bool b))
  | .minus => do
    if (← headIs .minus) || (← headIs (.ident "not")) then P.err
    else do
      let e ← rec (C.bp.unary .Minus)
      pure (.unary .Minus e)
  | .ident id =>
    if id = "none" || id = "None" || id = "null" then pure (.const .none)
    else if id = "not" then do
      if (← headIs .minus) || (← headIs (.ident "not")) then P.err
      else do
        let e ← rec (C.bp.unary .Not)
        pure (.unary .Not e)
    else parseIdent C rec id
  | .lessThan => do
    match (← peekOk) with
    | some (.ident _) => parseInlineComponentCall rec
    | _ => P.err
  | .leftBrace => parseMap rec
  | .leftBracket => parseArray C rec
  | .leftParen => do
    let lhs ← rec 0
    expect .rightParen
    pure lhs
  | _ => P.err

/-- `parse_expr_bp` -/
def parseExprBp (C : Cfg) (rec : Nat → P Expr) (minBp : Nat) : P Expr := do
  let lhs ← parsePrefix C rec
  let n ← loopFuel
  prattLoop C rec minBp n lhs false

/-- `inner_parse_expression`; `budget = MAX_RECURSION_DEPTH - self.recursion_depth` -/
def innerParseExpression (C : Cfg) : Nat → Nat → P Expr
  | 0, _ => P.err   -- "The expression is too complex"
  | budget+1, minBp => parseExprBp C (innerParseExpression C budget) minBp

/-- `parse_expression(0)` on a fresh expression at parser recursion depth `depth` (1 for a
top-level `{{ }}`: `parse` → `parse_until` has already counted one level) -/
def parseExpression (C : Cfg) (maxDepth depth : Nat) (toks : List Tok) : Res Expr :=
  innerParseExpression C (maxDepth - depth) 0 { toks := toks, arrayDim := 0, brackets := 0 }

/-- A whole template that consists of one variable block: `{{ expr }}` (the `VariableStart` arm of
`parse_until_inner` at top level followed by the end of input).  `none`: not of that shape. -/
def parseVariableTemplate (C : Cfg) (maxDepth : Nat) (toks : List Tok) : Option (Res Expr) :=
  match toks with
  | .variableStart _ :: rest =>
    match parseExpression C maxDepth 1 rest with
    | .ok e s =>
      match s.toks with
      | [.variableEnd _] => some (.ok e { s with toks := [] })
      | .variableEnd _ :: _ => none
      | _ => some .err
    | r => some r
  | _ => none

/-- A template of the fixed shape `{% for q in xs %}{{ expr }}{% endfor %}`: the expression is
parsed two `parse_until` levels deep with `is_in_loop()` true.  Only the expression is modelled;
the fixed frame is matched literally.  `none`: not of that shape. -/
def parseForTemplate (C : Cfg) (maxDepth : Nat) (toks : List Tok) : Option (Res Expr) :=
  match toks with
  | .tagStart _ :: .ident "for" :: .ident "q" :: .ident "in" :: .ident "xs" :: .tagEnd _
      :: .variableStart _ :: rest =>
    match parseExpression C maxDepth 2 rest with
    | .ok e s =>
      match s.toks with
      | [.variableEnd _, .tagStart _, .ident "endfor", .tagEnd _] => some (.ok e { s with toks := [] })
      | .variableEnd _ :: _ => none
      | _ => some .err
    | r => some r
  | _ => none

end Tera.Parser
