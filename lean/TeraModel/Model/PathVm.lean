/-
The five variable-path instructions of the VM (tera/src/vm/interpreter.rs):
`LoadName` (197, state.rs:164-170), `LoadAttr` (198-212), `WriteTop` (326-355),
`LoadPath` (773-820), `WritePath` (821-883) — just enough of the machine to compare a fused
instruction with the sequence it replaces: a value stack, one abstract "rest of the state" `σ`
(variables, loops, capture buffers, output), and as parameters what these arms call:
`State::get_value`, `State::dump_context`, `Value::get_attr`, `Value::is_undefined`,
`Value::is_safe`, the autoescape flag and the format-(escape)-write sink.

Errors carry no message or span (C09 compares ok-vs-error only).  A stack slot carries, next to
the value, whether `Chunk::expand_span` of its span range finds a span (the `rendering_error!`
macro panics with "to have a span for error" otherwise); the fused instructions look their spans
up by position in their own span list (`get_span_at(ip, k)`).
-/
import TeraModel.Model.Instr
namespace Tera
namespace PathVm

/-- What the five arms call.  `V` is the value type, `σ` everything in `State` but the stack. -/
structure Env (V σ : Type) where
  /-- `Value::undefined()` -/
  undef : V
  /-- `Value::is_undefined` -/
  isUndef : V → Bool
  /-- `State::get_value(name)` -/
  getValue : σ → String → V
  /-- `State::dump_context()` -/
  dumpContext : σ → V
  /-- `Value::get_attr(attr)` -/
  getAttr : V → String → Option V
  /-- `Value::is_safe` (a safe string, or a kind that never needs escaping) -/
  isSafe : V → Bool
  /-- `self.autoescape_enabled()` -/
  autoescape : Bool
  /-- format the value, pass it through the escape function iff the flag is set, append to the
  innermost capture buffer or to the output; `none` = the writer failed (`?`) -/
  emit : Bool → V → σ → Option σ

/-- The tail shared by `WriteTop` (lines 335-354) and `WritePath` (864-882):
`if !self.autoescape_enabled() || val.is_safe() { val.format(sink) } else { escape_fn(format(val), sink) }`
— the escape decision is taken on the value that is written. -/
def Env.write {V σ : Type} (env : Env V σ) (v : V) (s : σ) : Option σ :=
  env.emit (env.autoescape && !env.isSafe v) v s

inductive Res (V σ : Type) where
  | ok (stack : List (V × Bool)) (s : σ)
  | err
  | panic (site : String)

/-- `rendering_error!` / `.expect("to have a span for error")`: an error if the span is there. -/
def spanOrPanic {V σ : Type} (found : Bool) : Res V σ :=
  if found then .err else .panic "interpreter.rs: to have a span for error"

/-- `chunk.get_span_at(current_ip, k).expect(..)` then `return Err(..)` -/
def needSpan {V σ : Type} (spans : List Span) (k : Nat) : Res V σ :=
  spanOrPanic (decide (k < spans.length))

variable {V σ : Type}

/-- `LoadName(n)`: `state.load_name(n, current_ip)` -/
def loadName (env : Env V σ) (n : String) (spans : List Span) (stack : List (V × Bool)) (s : σ) :
    Res V σ :=
  let v := if n = MAGICAL_DUMP_VAR then env.dumpContext s else env.getValue s n
  .ok ((v, !spans.isEmpty) :: stack) s

/-- `LoadAttr(attr)` (the non-optional arm) -/
def loadAttr (env : Env V σ) (attr : String) (spans : List Span) (stack : List (V × Bool)) (s : σ) :
    Res V σ :=
  match stack with
  | [] => .panic "stack.rs:33 to have a value"
  | (a, aSpan) :: rest =>
    if env.isUndef a then spanOrPanic aSpan
    else .ok (((env.getAttr a attr).getD env.undef, !spans.isEmpty) :: rest) s

/-- `WriteTop` -/
def writeTop (env : Env V σ) (stack : List (V × Bool)) (s : σ) : Res V σ :=
  match stack with
  | [] => .panic "stack.rs:33 to have a value"
  | (top, topSpan) :: rest =>
    if env.isUndef top then spanOrPanic topSpan
    else match env.write top s with
      | some s' => .ok rest s'
      | none => .err

inductive Walk (V σ : Type) where
  | val (v : V)
  | stop (r : Res V σ)

/-- The `for (k, attr) in path[1..].iter().enumerate()` of `LoadPath` (790-812); `k` counts from
the current element, `attr :: rest` are the attributes still to read. -/
def walkLoad (env : Env V σ) (spans : List Span) : V → Nat → List String → Walk V σ
  | cur, _, [] => .val cur
  | cur, k, attr :: rest =>
    if env.isUndef cur then .stop (needSpan spans (k + 1))
    else match env.getAttr cur attr with
      | some next => walkLoad env spans next (k + 1) rest
      | none =>
        -- `k + 1 < num_attrs`: this is not the last attribute
        if rest ≠ [] then .stop (needSpan spans (k + 1)) else .val env.undef

/-- `LoadPath(path)` -/
def loadPath (env : Env V σ) (path : List String) (spans : List Span) (stack : List (V × Bool))
    (s : σ) : Res V σ :=
  match path with
  | [] => .panic "interpreter.rs:778 path[0]: index out of bounds"
  | n :: attrs =>
    let val := if attrs = [] ∧ n = MAGICAL_DUMP_VAR then env.dumpContext s else env.getValue s n
    if attrs ≠ [] then
      if env.isUndef val then needSpan spans 0
      else match walkLoad env spans val 0 attrs with
        | .val v => .ok ((v, !spans.isEmpty) :: stack) s
        | .stop r => r
    else .ok ((val, !spans.isEmpty) :: stack) s

/-- The `for` of `WritePath` (837-847) -/
def walkWrite (env : Env V σ) (spans : List Span) : V → Nat → List String → Walk V σ
  | cur, _, [] => .val cur
  | cur, k, attr :: rest =>
    match env.getAttr cur attr with
    | some next => walkWrite env spans next (k + 1) rest
    | none => .stop (needSpan spans (k + 1))

/-- `WritePath(path)` (with the undefined-leaf check of the `fix:` commit 9d9d778) -/
def writePath (env : Env V σ) (path : List String) (spans : List Span) (stack : List (V × Bool))
    (s : σ) : Res V σ :=
  match path with
  | [] => .panic "interpreter.rs:826 path[0]: index out of bounds"
  | n :: attrs =>
    let root := if attrs = [] ∧ n = MAGICAL_DUMP_VAR then env.dumpContext s else env.getValue s n
    if env.isUndef root then needSpan spans 0
    else match walkWrite env spans root 0 attrs with
      | .stop r => r
      | .val v =>
        if env.isUndef v then needSpan spans attrs.length
        else match env.write v s with
          | some s' => .ok stack s'
          | none => .err

/-- One of the five instructions; `none` for any other instruction. -/
def step? (env : Env V σ) (e : Entry) (stack : List (V × Bool)) (s : σ) : Option (Res V σ) :=
  match e.1 with
  | .loadName n => some (loadName env n e.2 stack s)
  | .loadAttr a => some (loadAttr env a e.2 stack s)
  | .writeTop => some (writeTop env stack s)
  | .loadPath p => some (loadPath env p e.2 stack s)
  | .writePath p => some (writePath env p e.2 stack s)
  | _ => none

/-- Straight-line execution of a sequence of path instructions (no jump can occur inside it). -/
def runSeq (env : Env V σ) : List Entry → List (V × Bool) → σ → Option (Res V σ)
  | [], stack, s => some (.ok stack s)
  | e :: es, stack, s =>
    match step? env e stack s with
    | none => none
    | some (.ok stack' s') => runSeq env es stack' s'
    | some r => some r

end PathVm
end Tera
