/-
The interpreter loop of vm/interpreter.rs (`while let Some((instr, _)) = chunk.get(ip)`) over a
whole chunk, with just enough structure to state that the optimisation pass preserves behaviour:

* the five path instructions are those of Model/PathVm.lean;
* the five jump-carrying instructions (`Jump`, `PopJumpIfFalse`, `JumpIfFalseOrPop`,
  `JumpIfTrueOrPop`, `Iterate`) and `Break` (which jumps to the `end_ip` the last `Iterate` of the
  innermost loop stored) are modelled exactly as far as control flow goes;
* every other instruction is abstract: `Sem.other kind arg stack state` gives the new stack and
  state, or an error, or a panic.  It neither reads nor writes instruction indices — the only
  places the VM keeps instruction indices are `ip` and `ForLoop.end_ip`.
  `StartIterate*` pushes a loop (with `end_ip = 0`), `PopLoop` pops one.

`ends` is the list of `end_ip`s of the active loops (`state.for_loops`, innermost first).
-/
import TeraModel.Model.PathVm
namespace Tera
namespace ChunkVm
open Tera.PathVm

structure Sem (V σ : Type) where
  env : Env V σ
  /-- `Value::is_truthy` -/
  truthy : V → Bool
  /-- `ForLoop::is_over` of the innermost loop -/
  isOver : σ → Bool
  /-- `ForLoop::advance` of the innermost loop; the flag is `end_ip != 0` (for_loop.rs:271) -/
  advance : Bool → σ → σ
  /-- any instruction other than the ten modelled here and `Break` -/
  other : String → String → List (V × Bool) → σ → Res V σ

structure Cfg (V σ : Type) where
  stack : List (V × Bool)
  ends : List Nat
  s : σ

inductive StepRes (V σ : Type) where
  | next (pc : Nat) (c : Cfg V σ)
  | err
  | panic (site : String)

variable {V σ : Type}

def ofRes (pc : Nat) (cfg : Cfg V σ) (f : List Nat → List Nat) : Res V σ → StepRes V σ
  | .ok st s => .next (pc + 1) ⟨st, f cfg.ends, s⟩
  | .err => .err
  | .panic site => .panic site

/-- what an abstract instruction does to the loop stack -/
def endsEffect (kind : String) : List Nat → List Nat :=
  if kind = "StartIterate" ∨ kind = "StartIterateComprehension" then (0 :: ·)
  else if kind = "PopLoop" then List.tail
  else id

/-- One turn of the interpreter loop on instruction `e` at `ip = pc`. -/
def step (sem : Sem V σ) (e : Entry) (pc : Nat) (cfg : Cfg V σ) : StepRes V σ :=
  match e.1 with
  | .loadName n => ofRes pc cfg id (loadName sem.env n e.2 cfg.stack cfg.s)
  | .loadAttr a => ofRes pc cfg id (loadAttr sem.env a e.2 cfg.stack cfg.s)
  | .writeTop => ofRes pc cfg id (writeTop sem.env cfg.stack cfg.s)
  | .loadPath p => ofRes pc cfg id (loadPath sem.env p e.2 cfg.stack cfg.s)
  | .writePath p => ofRes pc cfg id (writePath sem.env p e.2 cfg.stack cfg.s)
  | .jump t => .next t cfg
  | .popJumpIfFalse t =>
    match cfg.stack with
    | [] => .panic "stack.rs:33 to have a value"
    | (v, _) :: rest =>
      if !sem.truthy v then .next t { cfg with stack := rest }
      else .next (pc + 1) { cfg with stack := rest }
  | .jumpIfFalseOrPop t =>
    match cfg.stack with
    | [] => .panic "stack.rs:38 to peek a value"
    | (v, _) :: rest =>
      if !sem.truthy v then .next t cfg else .next (pc + 1) { cfg with stack := rest }
  | .jumpIfTrueOrPop t =>
    match cfg.stack with
    | [] => .panic "stack.rs:38 to peek a value"
    | (v, _) :: rest =>
      if sem.truthy v then .next t cfg else .next (pc + 1) { cfg with stack := rest }
  | .iterate t =>
    match cfg.ends with
    | [] => .next (pc + 1) cfg
    | endIp :: outer =>
      if sem.isOver cfg.s then .next t cfg
      else .next (pc + 1) { cfg with s := sem.advance (endIp != 0) cfg.s, ends := t :: outer }
  | .other kind arg =>
    if kind = "Break" then
      match cfg.ends with
      | [] => .next (pc + 1) cfg
      | endIp :: _ => .next endIp cfg
    else ofRes pc cfg (endsEffect kind) (sem.other kind arg cfg.stack cfg.s)

inductive RunRes (V σ : Type) where
  /-- `chunk.get(ip)` is `None`: `Ok(())` -/
  | done (c : Cfg V σ)
  | err
  | panic (site : String)
  | outOfFuel

/-- The interpreter loop, at most `fuel` turns. -/
def run (sem : Sem V σ) (c : List Entry) : Nat → Nat → Cfg V σ → RunRes V σ
  | 0, pc, cfg =>
    match c[pc]? with
    | none => .done cfg
    | some _ => .outOfFuel
  | fuel + 1, pc, cfg =>
    match c[pc]? with
    | none => .done cfg
    | some e =>
      match step sem e pc cfg with
      | .next pc' cfg' => run sem c fuel pc' cfg'
      | .err => .err
      | .panic site => .panic site

end ChunkVm
end Tera
