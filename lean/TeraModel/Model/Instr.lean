/-
Bytecode instructions (tera/src/parsing/instructions.rs `Instruction`, `Chunk`).

Only what the optimisation pass and the checker look at is structural: the five jump-carrying
instructions (their operand is an absolute instruction index) and the variable-path family
`LoadName / LoadAttr / WriteTop / LoadPath / WritePath`.  Every other instruction is
`other kind arg`: `kind` is the Rust variant name, `arg` its payload in the wire form of the
dump hook (`verif_hooks::raw_chunks_wire`): hex for names and texts, decimal for counts, a string
of `t` and `f` for spread vectors, empty for nullary instructions.

A chunk is a list of (instruction, spans): `Chunk.instructions : Vec<(Instruction, Vec<Span>)>`.
Spans are opaque here (the text `line:col-line:col(start..end)`).
-/
namespace Tera

/-- `vm::state::MAGICAL_DUMP_VAR` -/
def MAGICAL_DUMP_VAR : String := "__tera_context"

abbrev Span := String

inductive Instr where
  | loadName (n : String)
  | loadAttr (a : String)
  | writeTop
  /-- `path[0]` is the variable name, `path[1..]` the attribute names -/
  | loadPath (p : List String)
  | writePath (p : List String)
  | jump (t : Nat)
  | popJumpIfFalse (t : Nat)
  | jumpIfFalseOrPop (t : Nat)
  | jumpIfTrueOrPop (t : Nat)
  | iterate (t : Nat)
  | other (kind : String) (arg : String)
  deriving Repr, DecidableEq, Inhabited

abbrev Entry := Instr × List Span

namespace Instr

/-- The operand of the five instructions matched by
`Jump(t) | PopJumpIfFalse(t) | JumpIfFalseOrPop(t) | JumpIfTrueOrPop(t) | Iterate(t)`. -/
def target? : Instr → Option Nat
  | .jump t | .popJumpIfFalse t | .jumpIfFalseOrPop t | .jumpIfTrueOrPop t | .iterate t => some t
  | _ => none

/-- The same instruction with its jump operand (if it has one) replaced by `f operand`. -/
def mapTarget (f : Nat → Nat) : Instr → Instr
  | .jump t => .jump (f t)
  | .popJumpIfFalse t => .popJumpIfFalse (f t)
  | .jumpIfFalseOrPop t => .jumpIfFalseOrPop (f t)
  | .jumpIfTrueOrPop t => .jumpIfTrueOrPop (f t)
  | .iterate t => .iterate (f t)
  | i => i

/-- Produced only by the optimisation pass, never by the compiler. -/
def isFused : Instr → Bool
  | .loadPath _ | .writePath _ => true
  | _ => false

end Instr
end Tera
