/-
Mirror of `whitespace_filter` (tera/src/parsing/lexer.rs:644-696) and of the literal-text
handling of the parser (`parse_until_inner`, parser.rs:1659-1701: empty `Content` dropped,
anything but Content / VariableStart / TagStart at node level is `unreachable!`).
`trim_start` / `trim_end` are `Utf8.trimStart` / `Utf8.trimEnd` (Unicode White_Space table).
-/
import TeraModel.Model.Lexer
namespace Tera.WsFilter
open Tera Utf8 Lexer

abbrev Item := Token × Span

/-- the `matches!(iter.peek(), …)` of `handle_content_tokens!` (lexer.rs:660-666); an `Err` item or
the end of the stream does not match -/
def peekTrimsEnd : List Item → Bool
  | (.variableStart true, _) :: _ => true
  | (.tagStart true, _) :: _ => true
  | (.comment true _, _) :: _ => true
  | (.rawContent true _ _, _) :: _ => true
  | _ => false

/-- `handle_content_tokens!(data, span, set)` (lexer.rs:650-672): the emitted item and the new
value of `remove_leading_ws` -/
def handleContent (removeLeadingWs : Bool) (data : Bytes) (span : Span) (set : Bool)
    (next : List Item) : Item × Bool :=
  let data1 := if removeLeadingWs then trimStart data else data
  let flag1 := if removeLeadingWs then false else removeLeadingWs
  let flag2 := if set then set else flag1
  let data2 := if peekTrimsEnd next then trimEnd data1 else data1
  ((.content data2, span), flag2)

/-- the `from_fn` closure of `whitespace_filter`, `removeLeadingWs` is its captured flag -/
def filterGo (removeLeadingWs : Bool) : List Item → List Item
  | [] => []
  | (tok, span) :: rest =>
    match tok with
    | .content data =>
      let r := handleContent removeLeadingWs data span false rest
      r.1 :: filterGo r.2 rest
    | .rawContent _ data wsEnd =>
      let r := handleContent removeLeadingWs data span wsEnd rest
      r.1 :: filterGo r.2 rest
    | .variableEnd true => (tok, span) :: filterGo true rest
    | .tagEnd true => (tok, span) :: filterGo true rest
    | .comment _ endWs => (.content [], span) :: filterGo endWs rest
    | _ => (tok, span) :: filterGo false rest

/-- `whitespace_filter(iter)`: the trailing error item (if any) passes through unchanged -/
def whitespaceFilter (r : LexResult) : LexResult := ⟨filterGo false r.tokens, r.ending⟩

/-- `tokenize(input, delimiters)` (lexer.rs:698-703) -/
def tokenize (d : Delims) (src : Bytes) : LexResult := whitespaceFilter (basicTokenize d src)

/-! ### What the parser does with literal text (skeleton of `parse_until_inner`) -/

inductive Mode where
  | text | inVar | inTag
  deriving Repr, DecidableEq

/-- outcome of the skeleton parser -/
inductive Skel where
  /-- every node parsed; the output of a render that prints 0x01 per `{{ }}` group -/
  | ok (out : Bytes)
  /-- the token stream ended inside `{{ }}` / `{% %}`: the parser returns `Err(eoi)` -/
  | eoi
  /-- `unreachable!("Unexpected token when parsing: {:?}", t)` at parser.rs:1699 -/
  | panic (site : String)
  deriving Repr, DecidableEq

def Skel.map (f : Bytes → Bytes) : Skel → Skel
  | .ok out => .ok (f out)
  | s => s

def Skel.isPanic : Skel → Bool
  | .panic _ => true
  | _ => false

/-- Skeleton of `parse_until_inner` (parser.rs:1659-1701) for a template whose `{{ … }}` groups each
print the single byte 0x01 and whose tags print nothing: at node level `Content` is written unless
empty (1661-1666), `VariableStart` / `TagStart` open a group that is left again at the matching
`VariableEnd` / `TagEnd` (the real parser consumes exactly the group's tokens or fails), any other
token at node level is the `unreachable!` of parser.rs:1699. -/
def skeletonGo : Mode → List Item → Skel
  | .text, [] => .ok []
  | .text, (.content c, _) :: r =>
    (skeletonGo .text r).map fun out => if c.isEmpty then out else c ++ out
  | .text, (.variableStart _, _) :: r => skeletonGo .inVar r
  | .text, (.tagStart _, _) :: r => skeletonGo .inTag r
  | .text, _ :: _ => .panic "parser.rs:1699 unreachable"
  | .inVar, (.variableEnd _, _) :: r => (skeletonGo .text r).map fun out => 1 :: out
  | .inVar, _ :: r => skeletonGo .inVar r
  | .inVar, [] => .eoi
  | .inTag, (.tagEnd _, _) :: r => skeletonGo .text r
  | .inTag, _ :: r => skeletonGo .inTag r
  | .inTag, [] => .eoi

def skeleton (ts : List Item) : Skel := skeletonGo .text ts

end Tera.WsFilter
