/-
Model of tera/src/vm/for_loop.rs: `ForLoopIterator`, `Loop`, `ForLoop`.

The iterator is modelled by the list of items it still has to yield (`next` = take the head,
`size_hint().0` = its length).  Everything else is field for field the Rust struct, including the
`end_ip != 0` convention of `advance` (the counters only move from the second `Iterate` on, because
the first `Iterate` runs while `end_ip` is still 0 and sets it afterwards).
-/
import TeraModel.Model.EvalPrims
namespace Tera

/-- An item the iterator yields: `(Option<key>, value)`. -/
abbrev LoopItem := Option Value × Value

/-- `create_for_loop_iterator`: what a container yields, in order.
Arrays: the elements; maps: entries sorted by key (the F8 fix), key as a value; strings: one
normal (non-safe) string per character (`Value::from(&str)`), default features, i.e. no grapheme
segmentation; bytes: one `u64` per byte.  `none` for anything else. -/
def iterItems : Value → Option (List LoopItem)
  | .arr xs => some (xs.map fun v => (Option.none, v))
  | .map es => some ((sortEntries es).map fun kv => (some (keyToValue kv.1), kv.2))
  | .str _ s => some (s.map fun c => (Option.none, Value.str false [c]))
  | .bytes bs => some (bs.map fun b => (Option.none, Value.u64 b))
  | _ => Option.none

/-- `struct ForLoop` with `struct Loop` inlined (`index0`, `first`, `last`, `length`). -/
structure ForLoop where
  /-- items the iterator has not yielded yet -/
  remaining : List LoopItem
  index0 : Nat
  first : Bool
  last : Bool
  length : Nat
  endIp : Nat
  /-- assignments made by `{% set %}` during the current iteration (`context`) -/
  context : List (String × Value)
  valueName : String
  keyName : Option String
  current : LoopItem
  iterated : Bool
  isComprehension : Bool

namespace ForLoop

/-- `ForLoop::new` on the items of an iterable container. -/
def new (items : List LoopItem) (isComprehension : Bool := false) : ForLoop :=
  { remaining := items, index0 := 0, first := true, last := items.length == 1,
    length := items.length, endIp := 0, context := [], valueName := "", keyName := Option.none,
    current := (Option.none, Value.undef), iterated := false, isComprehension := isComprehension }

/-- `ForLoop::store_local`: the first name is the value name, the second the key name. -/
def storeLocalName (l : ForLoop) (name : String) : ForLoop :=
  if l.keyName.isNone && !l.valueName.isEmpty then { l with keyName := some name }
  else { l with valueName := name }

/-- `Loop::index`. -/
def index (l : ForLoop) : Nat := l.index0 + 1

/-- `ForLoop::advance` (with `Loop::advance` inlined). -/
def advance (l : ForLoop) : ForLoop :=
  match l.remaining with
  | [] => l
  | item :: rest =>
    let l1 := { l with remaining := rest, current := item, iterated := true }
    if l1.endIp != 0 then
      { l1 with index0 := l1.index0 + 1, first := false, last := (l1.index0 + 1 + 1 == l1.length),
                context := [] }
    else l1

/-- `ForLoop::is_over`. -/
def isOver (l : ForLoop) : Bool := l.remaining.isEmpty

/-- `ForLoop::store`: a `HashMap::insert` into the iteration's assignments. -/
def store (l : ForLoop) (name : String) (v : Value) : ForLoop :=
  { l with context := (name, v) :: l.context.filter (fun p => p.1 != name) }

def lookupCtx (ctx : List (String × Value)) (name : String) : Option Value :=
  match ctx with
  | [] => Option.none
  | (n, v) :: rest => if n == name then some v else lookupCtx rest name

/-- `ForLoop::get`. -/
def get (l : ForLoop) (name : String) : Option Value :=
  if name == "__tera_loop_index" && !l.isComprehension then some (.u64 l.index)
  else if name == "__tera_loop_index0" && !l.isComprehension then some (.u64 l.index0)
  else if name == "__tera_loop_first" && !l.isComprehension then some (.bool l.first)
  else if name == "__tera_loop_last" && !l.isComprehension then some (.bool l.last)
  else if name == "__tera_loop_length" && !l.isComprehension then some (.u64 l.length)
  else
    match lookupCtx l.context name with
    | some v => some v
    | Option.none =>
      if l.valueName == name then some l.current.2
      else if l.keyName == some name then some (l.current.1.getD Value.none)
      else Option.none

/-- The `Iterate(end_ip)` instruction on the innermost loop (vm/interpreter.rs): `none` when the
loop is over (the VM jumps to `end_ip`), otherwise advance and record `end_ip`. -/
def iterate (l : ForLoop) (endIp : Nat) : Option ForLoop :=
  if l.isOver then Option.none else some { l.advance with endIp := endIp }

end ForLoop
end Tera
