/-
Model of the statement level of tera/src/parsing/parser.rs on top of the expression parser model
(Model/ExprParser.lean): token list → `ParserOutput` (`Tera.Template`: parent, nodes, component
definitions).

Rust function                      model
  parse                            `parse`
  parse_until                      `parseUntil`   (the shared `recursion_depth` counter is the
                                   structural argument `remaining = MAX_RECURSION_DEPTH - depth`;
                                   0 is the "template nesting is too deep" error)
  parse_until_inner                `untilLoop`    (`unreachable!` at parser.rs:1700 is `.panic`)
  parse_tag                        `parseTag`
  parse_set                        `parseSet`, `setFilters`
  parse_if                         `parseIf`      (the `elif` self-recursion does NOT pass through
                                   `parse_until`: it is recursion on an iteration budget)
  parse_for_loop                   `parseForLoop`
  parse_component_definition       `parseComponentDefinition`, `componentArgs`
  parse_literal_map                `parseLiteralMap`
  parse_component_with_body        `parseComponentWithBody`

One `parse_until` level passes the next level around as `recU : EndCheck → T (List Node)` and the
expression parser of its level as `ex : Nat → P Expr` (`innerParseExpression C remaining`), exactly
as ExprParser.lean passes `rec`.  `end_check_fn` closures are the finite enumeration `EndCheck`.
Loops run on an iteration budget initialised to the number of remaining tokens + 1.

Outcomes: `ok` | `err` (every `Err(..)`) | `panic site` | `fuel` (model only).
-/
import TeraModel.Model.ExprParser
namespace Tera.TParser
open Tera Tera.Parser

/-- `BodyContext` -/
inductive BodyContext where
  | ForLoop | Block | If | ComponentDefinition | Capture
  deriving Repr, DecidableEq, Inhabited

/-- `BodyContext::can_contain_blocks` -/
def BodyContext.canContainBlocks : BodyContext → Bool
  | .Block | .Capture => true
  | _ => false

/-- the parser fields: the expression-level ones (`p`) and the statement-level ones -/
structure TState where
  p : PState
  bodyContexts : List BodyContext
  blocksSeen : List String
  componentsSeen : List String
  parent : Option String
  componentDefinitions : List ComponentDefinition

inductive TRes (α : Type) where
  | ok (a : α) (s : TState)
  | err
  | panic (site : String)
  | fuel

abbrev T (α : Type) := TState → TRes α

namespace T
@[inline] def pure (a : α) : T α := fun s => .ok a s
@[inline] def bind (x : T α) (f : α → T β) : T β := fun s =>
  match x s with
  | .ok a s' => f a s'
  | .err => .err
  | .panic m => .panic m
  | .fuel => .fuel
def err : T α := fun _ => .err
def fuel : T α := fun _ => .fuel
def panic (m : String) : T α := fun _ => .panic m
instance : Monad T where
  pure := T.pure
  bind := T.bind
end T

/-- run an expression-level parser on the expression-level fields -/
def lift (x : P α) : T α := fun s =>
  match x s.p with
  | .ok a p' => .ok a { s with p := p' }
  | .err => .err
  | .panic m => .panic m
  | .fuel => .fuel

def getState : T TState := fun s => .ok s s
def modify (f : TState → TState) : T Unit := fun s => .ok () (f s)

/-- `self.is_in_loop()` -/
def isInLoop (s : TState) : Bool := s.bodyContexts.contains .ForLoop

def pushCtx (c : BodyContext) : T Unit := modify fun s => { s with bodyContexts := s.bodyContexts ++ [c] }
def popCtx : T Unit := modify fun s => { s with bodyContexts := s.bodyContexts.dropLast }

/-- the closures handed to `parse_until` -/
inductive EndCheck where
  | never
  | endforOrElse
  | endfor
  | endifElseElif
  | endif
  | endset
  | endfilter
  | endblock
  | endcomponent
  | closingTagStart
  deriving Repr, DecidableEq

def EndCheck.test : EndCheck → Tok → Bool
  | .never, _ => false
  | .endforOrElse, t => t == .ident "endfor" || t == .ident "else"
  | .endfor, t => t == .ident "endfor"
  | .endifElseElif, t => t == .ident "endif" || t == .ident "else" || t == .ident "elif"
  | .endif, t => t == .ident "endif"
  | .endset, t => t == .ident "endset"
  | .endfilter, t => t == .ident "endfilter"
  | .endblock, t => t == .ident "endblock"
  | .endcomponent, t => t == .ident "endcomponent"
  | .closingTagStart, t => t == .closingTagStart

/-- `char::is_whitespace` (Unicode White_Space) -/
def isWhitespace (c : Char) : Bool :=
  let n := c.toNat
  (0x9 ≤ n && n ≤ 0xD) || n == 0x20 || n == 0x85 || n == 0xA0 || n == 0x1680
    || (0x2000 ≤ n && n ≤ 0x200A) || n == 0x2028 || n == 0x2029 || n == 0x202F || n == 0x205F
    || n == 0x3000

/-- `expect_token!(self, Token::TagEnd(..), "%}")` -/
def expectTagEnd : P Unit := do
  match (← nextOrError) with
  | .tagEnd _ => pure ()
  | _ => P.err

/-- `expect_token!(self, Token::VariableEnd(..), "}}")` -/
def expectVariableEnd : P Unit := do
  match (← nextOrError) with
  | .variableEnd _ => pure ()
  | _ => P.err

/-- the expression parser of this level with the current `is_in_loop()` -/
def expr (mk : Bool → Nat → P Expr) (minBp : Nat) : T Expr := fun s =>
  lift (mk (isInLoop s) minBp) s

/-- `Type::from_str` (identifiers are ASCII, so `to_lowercase` is ASCII lower-casing) -/
def typeOfStr (s : String) : Option ArgType := ArgType.ofStr s.toLower

/-- `Type::from_value` -/
def typeOfValue : Value → Option ArgType
  | .str .. => some .String
  | .bool _ => some .Bool
  | .u64 _ | .i64 _ | .u128 _ | .i128 _ => some .Integer
  | .f64 _ => some .Float
  | .arr _ => some .Array
  | .map _ => some .Map
  | .bytes _ => some .Bytes
  | .undef | .none => none

/-- insert into a key-sorted association list (`BTreeMap::insert`) -/
def btreeInsert (k : String) (v : α) : List (String × α) → List (String × α)
  | [] => [(k, v)]
  | (k', v') :: rest =>
    if k < k' then (k, v) :: (k', v') :: rest
    else if k = k' then (k, v) :: rest
    else (k', v') :: btreeInsert k v rest

/-- `impl Display for Key` -/
def keyToString : Key → String
  | .bool b => if b then "true" else "false"
  | .u64 n | .u128 n => toString n
  | .i64 n | .i128 n => toString n
  | .str s => String.ofList s

/-- `parse_literal_map`: `{` then `parse_map`, which must have folded to a constant -/
def parseLiteralMap (ex : Nat → P Expr) : P Value := do
  expect .leftBrace
  match (← parseMap ex) with
  | .const v => pure v
  | _ => P.err

/-- the default value of a component argument (parse_component_definition, "Then a potential
default value"), after the `=` -/
def componentDefault (C : Cfg) (ex : Nat → P Expr) : P Value := do
  match (← peekOk) with
  | some (.bool b) => do let _ ← nextOrError; pure (.bool b)
  | some (.str s) => do let _ ← nextOrError; pure (.str false s.toList)
  | some (.integer i) => do let _ ← nextOrError; pure (.i64 i)
  | some (.float f) => do let _ ← nextOrError; pure (.f64 f)
  | some (.ident id) =>
    if id = "none" || id = "None" || id = "null" then do let _ ← nextOrError; pure .none
    else P.err
  | some .leftBracket => do
    expect .leftBracket
    match (← parseArray C ex) with
    | .const v => pure v
    | _ => P.err
  | some .leftBrace => parseLiteralMap ex
  | _ => P.err

/-- the `loop {}` over the parameters of `parse_component_definition` (after the `(`);
returns (kwargs in key order, rest parameter) -/
def componentArgs (C : Cfg) (ex : Nat → P Expr) :
    Nat → List (String × ComponentArgument) → List String → P (List (String × ComponentArgument) × Option String)
  | 0, _, _ => P.fuel
  | n+1, kwargs, seen => do
    if (← headIs .rightParen) then do let _ ← nextOrError; pure (kwargs, none)
    else do
      if !kwargs.isEmpty then expect .comma
      if (← headIs .rightParen) then do let _ ← nextOrError; pure (kwargs, none)
      else if (← headIs .spread) then do
        -- rest parameter: ...ident
        let _ ← nextOrError
        let restName ← expectIdent
        if restName = "body" then P.err
        else if kwargs.any (fun p => p.1 == restName) then P.err
        else if !(← headIs .rightParen) then P.err
        else do
          let _ ← nextOrError
          pure (kwargs, some restName)
      else do
        let argName ← expectIdent
        if argName = "body" then P.err
        else if seen.contains argName then P.err
        else do
          -- First a potential type
          let typ ← (do
            if (← headIs .colon) then do
              let _ ← nextOrError
              match (← peekOk) with
              | some (.ident t) =>
                match typeOfStr t with
                | some ty => do let _ ← nextOrError; pure (some ty)
                | none => P.err
              | _ => P.err
            else pure none : P (Option ArgType))
          -- Then a potential default value
          let (dflt, typ) ← (do
            if (← headIs .assign) then do
              let _ ← nextOrError
              let v ← componentDefault C ex
              pure (some v, if typ.isNone then typeOfValue v else typ)
            else pure (none, typ) : P (Option Value × Option ArgType))
          componentArgs C ex n (btreeInsert argName { default := dflt, typ := typ } kwargs)
            (argName :: seen)

/-- the `loop {}` collecting `| filter` of a set block (parse_set); the `else { expect %}; break }`
arm of the Rust loop is the `expectTagEnd` that follows the call in `parseSet` -/
def setFilters (ex : Nat → P Expr) : Nat → List Expr → P (List Expr)
  | 0, _ => P.fuel
  | n+1, acc => do
    if (← headIs .pipe) then do
      expect .pipe
      let f ← parseFilter ex (.const .none)
      setFilters ex n (acc ++ [f])
    else pure acc

/-- the `break` / `continue` legality walk of `parse_tag` over `body_contexts.iter().rev()`:
`some true` = inside a loop, `some false` = not in a loop, `none` = a capture comes first -/
def loopWalk : List BodyContext → Option Bool
  | [] => some false
  | .ForLoop :: _ => some true
  | .Capture :: _ => none
  | _ :: rest => loopWalk rest

section level
variable (C : Bool → Cfg)
-- the next `parse_until` level
variable (recU : EndCheck → T (List Node))
-- `inner_parse_expression` at this level: `is_in_loop` → `min_bp` → parser
variable (ex : Bool → Nat → P Expr)

/-- `parse_if` -/
def parseIf : Nat → T (Expr × List Node × List Node)
  | 0 => T.fuel
  | n+1 => do
    pushCtx .If
    let e ← expr ex 0
    lift expectTagEnd
    let body ← recU .endifElseElif
    let falseBody ← (do
      match (← lift peekOk) with
      | some (.ident "elif") => do
        let _ ← lift nextOrError
        let (e', b', f') ← parseIf n
        pure [Node.if e' b' f']
      | some (.ident "else") => do
        let _ ← lift nextOrError
        lift expectTagEnd
        recU .endif
      | some (.ident "endif") => pure []
      | _ => T.err : T (List Node))   -- other token, lexer error, end of input
    popCtx
    pure (e, body, falseBody)

/-- `parse_for_loop` -/
def parseForLoop : T Node := do
  pushCtx .ForLoop
  let name ← lift expectIdent
  if Gen.RESERVED_NAMES.contains name then T.err
  else do
    let (key, name) ← (do
      if (← lift (headIs .comma)) then do
        let _ ← lift nextOrError
        let val ← lift expectIdent
        if Gen.RESERVED_NAMES.contains val then T.err
        else pure (some name, val)
      else pure (none, name) : T (Option String × String))
    lift (expect (.ident "in"))
    let target ← expr ex 0
    lift expectTagEnd
    let body ← recU .endforOrElse
    popCtx
    let elseBody ← (do
      if (← lift (headIs (.ident "else"))) then do
        let _ ← lift nextOrError
        lift expectTagEnd
        recU .endfor
      else pure [] : T (List Node))
    -- eat the endfor
    let _ ← lift nextOrError
    pure (.forLoop key name target body elseBody)

/-- `parse_set` -/
def parseSet (global : Bool) : T Node := do
  let name ← lift expectIdent
  if Gen.RESERVED_NAMES.contains name then T.err
  else do
    match (← lift peekOk) with
    | some .assign => do
      lift (expect .assign)
      let value ← expr ex 0
      pure (.set name value global)
    | some .pipe | some (.tagEnd _) => do
      let s ← getState
      let n ← lift loopFuel
      let filters ← lift (setFilters (ex (isInLoop s)) n [])
      -- (the Rust pushes the context after the `%}`; nothing can observe the order)
      pushCtx .Capture
      lift expectTagEnd
      let body ← recU .endset
      popCtx
      let _ ← lift nextOrError
      pure (.blockSet name filters body global)
    | _ => T.err

/-- `parse_component_definition` -/
def parseComponentDefinition : T ComponentDefinition := do
  let s ← getState
  if !s.bodyContexts.isEmpty then T.err
  else do
    pushCtx .ComponentDefinition
    let name ← lift dottedName
    if s.componentsSeen.contains name then T.err
    else do
      modify fun s => { s with componentsSeen := name :: s.componentsSeen }
      lift (expect .leftParen)
      let n ← lift loopFuel
      let (kwargs, rest) ← lift (componentArgs (C false) (ex false) n [] [])
      -- Then we potentially have a metadata map
      let metadata ← (do
        if (← lift (headIs .leftBrace)) then do
          match (← lift (parseLiteralMap (ex false))) with
          | .map es => pure (es.foldl (fun m (k, v) => btreeInsert (keyToString k) v m) [])
          | _ => T.panic "parser.rs:1376 as_map().unwrap()"
        else pure [] : T (List (String × Value)))
      lift expectTagEnd
      let body ← recU .endcomponent
      let _ ← lift nextOrError
      let ok ← (do
        match (← lift peekOk) with
        | some (.ident _) => do
          let endName ← lift dottedName
          pure (endName == name)
        | _ => pure true : T Bool)
      if !ok then T.err
      else do
        popCtx
        pure { name := name, kwargs := kwargs, restParamName := rest, metadata := metadata, body := body }

/-- `parse_component_with_body` -/
def parseComponentWithBody : T Expr := do
  let s ← getState
  let name ← lift dottedName
  let n ← lift loopFuel
  let kwargs ← lift (componentAttributes (ex (isInLoop s)) n [])
  lift (expect .greaterThan)
  -- (the Rust pushes the context after the `%}`; nothing can observe the order)
  pushCtx .Capture
  lift expectTagEnd
  let body ← recU .closingTagStart
  popCtx
  -- Check for unclosed component (EOF reached)
  let s' ← getState
  if s'.p.toks.isEmpty then T.err
  else do
    lift (expect .closingTagStart)
    let endName ← lift dottedName
    if endName != name then T.err
    else do
      lift (expect .greaterThan)
      pure (.componentCall name kwargs body false)

/-- `parse_tag` -/
def parseTag (isFirstNode : Bool) : T (Option Node) := do
  let tagToken ← lift nextOrError
  match tagToken with
  | .ident "set" => do let n ← parseSet recU ex false; pure (some n)
  | .ident "set_global" => do let n ← parseSet recU ex true; pure (some n)
  | .ident "include" => do
    match (← lift nextOrError) with
    | .str s => pure (some (.include s))
    | _ => T.err
  | .ident "extends" => do
    match (← lift nextOrError) with
    | .str name => do
      let s ← getState
      if s.parent.isSome then T.err
      else if !isFirstNode then T.err
      else if !s.bodyContexts.isEmpty then T.err
      else do
        modify fun s => { s with parent := some name }
        pure none
    | _ => T.err
  | .ident "block" => do
    let s ← getState
    if s.bodyContexts.any (fun b => !b.canContainBlocks) then T.err
    else do
      pushCtx .Block
      let name ← lift expectIdent
      let s ← getState
      if s.blocksSeen.contains name then T.err
      else do
        modify fun s => { s with blocksSeen := name :: s.blocksSeen }
        lift expectTagEnd
        let body ← recU .endblock
        let _ ← lift nextOrError
        let ok ← (do
          match (← lift peekOk) with
          | some (.ident endName) => do
            let _ ← lift nextOrError
            pure (endName == name)
          | _ => pure true : T Bool)
        if !ok then T.err
        else do
          popCtx
          pure (some (.block name body))
  | .ident "for" => do let n ← parseForLoop recU ex; pure (some n)
  | .ident "if" => do
    let n ← lift loopFuel
    let (e, b, f) ← parseIf recU ex n
    lift (expect (.ident "endif"))
    pure (some (.if e b f))
  | .ident "filter" => do
    pushCtx .Capture
    let name ← lift expectIdent
    let s ← getState
    let kwargs ← (do
      if (← lift (headIs .leftParen)) then lift (parseKwargs (ex (isInLoop s) ))
      else pure [] : T (List (String × Expr)))
    lift expectTagEnd
    let body ← recU .endfilter
    let _ ← lift nextOrError
    popCtx
    pure (some (.filterSection name kwargs body))
  | .ident "component" => do
    let def_ ← parseComponentDefinition C recU ex
    modify fun s => { s with componentDefinitions := s.componentDefinitions ++ [def_] }
    pure none
  | .ident "break" => do
    let s ← getState
    match loopWalk s.bodyContexts.reverse with
    | none => T.err          -- inside a filter section, `set` block or component body
    | some false => T.err    -- can only be used in a for loop
    | some true => pure (some .break)
  | .ident "continue" => do
    let s ← getState
    match loopWalk s.bodyContexts.reverse with
    | none => T.err
    | some false => T.err
    | some true => pure (some .continue)
  | .lessThan => do
    match (← lift peekOk) with
    | some (.ident _) => do
      let e ← parseComponentWithBody recU ex
      pure (some (.expression e))
    | _ => T.err
  | _ => T.err   -- Unknown tag

/-- `parse_until_inner`: the `while let Some((token, _)) = self.next()?` loop -/
def untilLoop (endCheck : EndCheck) : Nat → List Node → T (List Node)
  | 0, _ => T.fuel
  | n+1, nodes => fun s =>
    match s.p.toks with
    | [] => .ok nodes s
    | tok :: rest =>
      let s1 : TState := { s with p := { s.p with toks := rest } }
      match tok with
      | .error => .err
      | .content c =>
        -- an empty content replaces a comment: ignored
        untilLoop endCheck n (if c.isEmpty then nodes else nodes ++ [.content c]) s1
      | .variableStart _ =>
        (do
          let e ← expr ex 0
          lift expectVariableEnd
          untilLoop endCheck n (nodes ++ [Node.expression e])) s1
      | .tagStart _ =>
        match rest with
        | [] => .err                 -- unexpected end of input
        | .error :: _ => .err
        | t :: _ =>
          if endCheck.test t then .ok nodes s1
          else
            let isFirst := nodes.all (fun nd => match nd with
              | .content c => c.toList.all isWhitespace
              | _ => false)
            (do
              let node ← parseTag C recU ex isFirst
              lift expectTagEnd
              untilLoop endCheck n (match node with
                | some nd => nodes ++ [nd]
                | none => nodes)) s1
      | _ => .panic "parser.rs:1700 unreachable!(Unexpected token when parsing)"

end level

/-- configuration of one level -/
def cfgOf (inLoop : Bool) : Cfg := genCfg inLoop

/-- `parse_until`; `remaining = MAX_RECURSION_DEPTH - self.recursion_depth` before the call -/
def parseUntil : Nat → EndCheck → T (List Node)
  | 0, _ => T.err   -- "The template nesting is too deep"
  | r+1, endCheck => do
    let n ← lift loopFuel
    untilLoop cfgOf (parseUntil r) (fun il => innerParseExpression (cfgOf il) r) endCheck n []

/-- `Parser::parse` -/
def parse (maxDepth : Nat) (toks : List Tok) : TRes Template :=
  let s0 : TState := ⟨⟨toks, 0, 0⟩, [], [], [], none, []⟩
  match parseUntil maxDepth .never s0 with
  | .ok nodes s => .ok ⟨s.parent, nodes, s.componentDefinitions⟩ s
  | .err => .err
  | .panic m => .panic m
  | .fuel => .fuel

/-! ### what the filtered lexer emits (hypothesis of the totality theorem, checked by the driver) -/

/-- the three states of `basic_tokenize` -/
inductive LexSt where
  | tpl | var | tag
  deriving Repr, DecidableEq

/-- The shape of a token stream after the whitespace filter: in `Template` state only Content /
VariableStart / TagStart come out, inside `{{ }}` / `{% %}` none of these and the matching end
token leads back to `Template`; a lexer error ends the stream (lexer.rs `errored`).  This is what
`Tera.C06.template_state_tokens` and `filter_removes_raw_and_comment` establish for the lexer
model, transported to the parser's token type. -/
def shaped : LexSt → List Tok → Bool
  | _, [] => true
  | st, t :: rest =>
    match t with
    | .error => rest.isEmpty
    | .content _ => st == .tpl && shaped .tpl rest
    | .variableStart _ => st == .tpl && shaped .var rest
    | .tagStart _ => st == .tpl && shaped .tag rest
    | .variableEnd _ => st == .var && shaped .tpl rest
    | .tagEnd _ => st == .tag && shaped .tpl rest
    | _ => st != .tpl && shaped st rest

end Tera.TParser
