/-
Model of the collection filters of tera/src/filters.rs (`sort` with `ensure_comparable`, `unique`,
`group_by`, `first`, `last`, `nth`, `length`, `reverse`, `keys`, `values`, `pairs`, `join`,
`split`, `get`) and of `Value::get_from_path`, `Value::len`, `Value::reverse` (value/mod.rs).

Reference models of std pieces (trusted, see props.d/C16.json):
* `slice::sort_by` = stable insertion sort (`sortBy`); std promises exactly a stable sort when the
  comparison is a total order and may panic otherwise — that the comparison handed to it *is* a
  total order on every input is theorem `C16_sort_by_precondition`;
* `BTreeSet<Value>` = a list of the inserted values, membership by `cmp = Equal`;
* `HashMap<Key, Vec<Value>>` of `group_by` = association list in first-insertion order (the
  result is a map, compared up to order);
* `str::split` = leftmost non-overlapping matches; `parse::<usize>` = optional `+`, decimal
  digits, at most `usize::MAX` (64-bit).
Arguments arrive already converted (`&[Value]`, `&Map`, `&str`): conversion failures are the
caller's `invalid_arg_type` error, outside this file.
-/
import TeraModel.Model.Lookup
namespace Tera
namespace Coll

def USIZE_MAX : Nat := 2^64 - 1

/-- `elem.parse::<usize>()`. -/
def parseUsize (s : List Char) : Option Nat :=
  let digits := match s with
    | '+' :: r => r
    | r => r
  if digits.isEmpty then none
  else if digits.all (fun c => '0' ≤ c ∧ c ≤ '9') then
    let n := digits.foldl (fun acc c => acc * 10 + (c.toNat - '0'.toNat)) 0
    if n ≤ USIZE_MAX then some n else none
  else none

/-- `path.split('.')` on a `char` pattern (never empty). -/
def splitDots : List Char → List Char → List (List Char)
  | [], acc => [acc.reverse]
  | c :: cs, acc => if c == '.' then acc.reverse :: splitDots cs [] else splitDots cs (c :: acc)

/-- the loop of `get_from_path` -/
def walkPath (H : List HashTok → Nat) : List (List Char) → Value → Option Value
  | [], cur => some cur
  | elem :: rest, cur =>
    match parseUsize elem with
    | some idx =>
      match cur with
      | .arr xs =>
        match xs[idx]? with
        | some v => walkPath H rest v
        | none => none
      | _ => none
    | none =>
      match cur with
      | .map m =>
        match Map.hashGet H (.str elem) m with
        | some v => walkPath H rest v
        | none => none
      | _ => none

/-- `Value::get_from_path`. -/
def getFromPath (H : List HashTok → Nat) (v : Value) (path : List Char) : Option Value :=
  match v with
  | .undef => none
  | .none => some v
  | _ => walkPath H (splitDots path []) v

/-! ### sort -/

/-- the loop of `ensure_comparable` (after the F12 repair): none keys are skipped altogether, every
other key must be `partial_cmp`-comparable with the previous key that was not none. -/
def ensureComparableGo : Option Value → List Value → Bool
  | _, [] => true
  | prev, key :: rest =>
    match key with
    | .none => ensureComparableGo prev rest
    | _ =>
      match prev with
      | some p =>
        if (Value.partialCmp p key).isNone then false else ensureComparableGo (some key) rest
      | Option.none => ensureComparableGo (some key) rest

/-- `ensure_comparable`. -/
def ensureComparable (keys : List Value) : Bool := ensureComparableGo Option.none keys

inductive SortRes where
  | ok (out : List Value)
  | missingAttr          -- "does not have an attribute after following path"
  | notComparable        -- "Cannot sort: … are not comparable"
  deriving Repr

/-- decorate: `(key, v)` for every element, or `none` if some element lacks the attribute -/
def decorateAttr (H : List HashTok → Nat) (attr : List Char) : List Value → Option (List (Value × Value))
  | [] => some []
  | v :: rest =>
    match getFromPath H v attr with
    | some key =>
      match decorateAttr H attr rest with
      | some r => some ((key, v) :: r)
      | none => none
    | none => none

/-- filters.rs `sort`. -/
def sort (H : List HashTok → Nat) (val : List Value) (attrib : Option (List Char)) : SortRes :=
  if val.isEmpty then .ok []
  else
    match attrib with
    | some attr =>
      match decorateAttr H attr val with
      | none => .missingAttr
      | some decorated =>
        let sorted := sortBy (fun a b => Value.cmp a.1 b.1) decorated
        if ensureComparable (sorted.map (·.1)) then .ok (sorted.map (·.2)) else .notComparable
    | none =>
      let out := sortBy Value.cmp val
      if ensureComparable out then .ok out else .notComparable

/-! ### unique -/

/-- the loop of `unique`: `seen` is the `BTreeSet` (membership by `cmp = Equal`). -/
def uniqueGo : List Value → List Value → List Value
  | [], _ => []
  | v :: rest, seen =>
    if seen.any (fun s => Value.cmp v s == .eq) then uniqueGo rest seen
    else v :: uniqueGo rest (v :: seen)

/-- filters.rs `unique`. -/
def unique (val : List Value) : List Value := uniqueGo val []

/-! ### group_by -/

inductive GroupRes where
  | ok (groups : List (Key × List Value))
  | missingAttr
  | badKey               -- attribute value is not a valid key type
  deriving Repr

/-- `grouped.get_mut(&key)` then push, else insert: append `v` to the group whose key is `==`. -/
def pushGroup (k : Key) (v : Value) : List (Key × List Value) → List (Key × List Value)
  | [] => [(k, [v])]
  | (k', vs) :: rest =>
    if Key.eq k' k then (k', vs ++ [v]) :: rest else (k', vs) :: pushGroup k v rest

def groupGo (H : List HashTok → Nat) (attr : List Char) :
    List Value → List (Key × List Value) → GroupRes
  | [], g => .ok g
  | v :: rest, g =>
    match getFromPath H v attr with
    | none => .missingAttr
    | some .none => groupGo H attr rest g
    | some x =>
      match x.asKeyK with
      | none => .badKey
      | some k => groupGo H attr rest (pushGroup k v g)

/-- filters.rs `group_by`. -/
def groupBy (H : List HashTok → Nat) (val : List Value) (attr : List Char) : GroupRes :=
  if val.isEmpty then .ok [] else groupGo H attr val []

/-! ### element access, length, reverse -/

/-- filters.rs `first`. -/
def first (val : List Value) : Value := val.head?.getD .none
/-- filters.rs `last`. -/
def last (val : List Value) : Value := val.getLast?.getD .none
/-- filters.rs `nth`. -/
def nth (val : List Value) (n : Nat) : Value := (val[n]?).getD .none

/-- `Value::len` (chars for strings; the `unicode` feature is off). -/
def len : Value → Option Nat
  | .map m => some m.length
  | .arr xs => some xs.length
  | .bytes b => some b.length
  | .str _ s => some s.length
  | _ => none

/-- `Value::reverse`; the reversed string is a fresh normal string, reversed bytes come back as
an array of integers (generic `From<Vec<T>>`). -/
def reverse : Value → Option Value
  | .arr xs => some (.arr xs.reverse)
  | .bytes b => some (.arr (b.reverse.map fun n => .u64 n))   -- `Self::from(Vec<u8>)` is an array
  | .str _ s => some (.str false s.reverse)
  | _ => none

/-! ### keys / values / pairs -/

/-- `map_entries`: `entries.sort_by_key(|e| e.0)`. -/
def mapEntries (m : List (Key × Value)) : List (Key × Value) := sortEntriesK m

def keys (m : List (Key × Value)) : List Value := (mapEntries m).map fun e => e.1.asValue
def values (m : List (Key × Value)) : List Value := (mapEntries m).map fun e => e.2
def pairs (m : List (Key × Value)) : List Value :=
  (mapEntries m).map fun e => .arr [e.1.asValue, e.2]

/-! ### join / split -/

/-- `[String]::join(sep)`. -/
def joinStrs (sep : List Char) : List (List Char) → List Char
  | [] => []
  | [s] => s
  | s :: rest => s ++ sep ++ joinStrs sep rest

/-- filters.rs `join`; `fmt` is `format!("{x}")` (`Display for Value`). -/
def join (fmt : Value → List Char) (val : List Value) (sep : List Char) : List Char :=
  joinStrs sep (val.map fmt)

/-- `str::split(pat)` for a non-empty pattern: leftmost, non-overlapping. `skip` counts the
characters of a match still to be dropped. -/
def splitGo (pat : List Char) : List Char → List Char → Nat → List (List Char)
  | [], acc, _ => [acc.reverse]
  | _ :: cs, acc, skip + 1 => splitGo pat cs acc skip
  | c :: cs, acc, 0 =>
    if pat.isPrefixOf (c :: cs) then acc.reverse :: splitGo pat cs [] (pat.length - 1)
    else splitGo pat cs (c :: acc) 0

/-- `str::split(pat)`; the empty pattern matches at every boundary (`"ab".split("")` is
`["", "a", "b", ""]`). -/
def splitStr (s pat : List Char) : List (List Char) :=
  if pat.isEmpty then [] :: (s.map fun c => [c]) ++ [[]]
  else splitGo pat s [] 0

/-- filters.rs `split`: an array of normal strings. -/
def split (s pat : List Char) : List Value := (splitStr s pat).map fun p => .str false p

/-- `Display` for the value kinds whose text is fixed by a few lines of value/mod.rs: strings
verbatim, booleans, integers in decimal, none/undefined empty.  Floats, bytes, arrays and maps
(`{:?}` of std) are not modelled. -/
def fmtSimple : Value → Option (List Char)
  | .str _ s => some s
  | .bool b => some (if b then "true".toList else "false".toList)
  | .u64 n => some (toString n).toList
  | .i64 n => some (toString n).toList
  | .u128 n => some (toString n).toList
  | .i128 n => some (toString n).toList
  | .none => some []
  | .undef => some []
  | _ => none

end Coll
end Tera
