/-
Byte-level mirror of `basic_tokenize` (tera/src/parsing/lexer.rs:227-641) with its helpers
`memstr` (9-13), `skip_tag` (17-40), `find_start_marker` (43-51) and the macros `advance!`
(264-280), `check_ws_start!` (282-292), `lex_number!` (294-329), `lex_string!` (331-398).

Conventions
* `rest : &str` is the byte list `Pos.rest`; `split_at` / `&rest[a..b]` off a char boundary is the
  outcome `.panic "<site>"`; `rest.get(a..b)` answers `none` there (as in Rust).
* `advance!` walks `skipped.chars()`: a char is counted at each non-continuation byte (the two
  agree on valid UTF-8; `str::chars` is std, trusted), `'\n'` is the byte 0x0A.
* one call of `step` = one pass through the body of the `loop` in the `from_fn` closure;
  `Step.skip` is the `continue` after skipping in-tag whitespace.
* inner searches (`raw` block) are fuel-driven with an explicit `.fuel` outcome.
* tables (operators, quotes, escapes, tag names, keywords, default delimiters) come from
  `TeraModel/Generated/LexTables.lean`, regenerated from the Rust source on every run.
-/
import TeraModel.Model.Delims
import TeraModel.Model.Token
import TeraModel.Generated.LexTables
namespace Tera.Lexer
open Tera Utf8 Generated

/-- lexer.rs:53-60 -/
inductive State where
  | template | variable | tag
  deriving Repr, DecidableEq

/-- which `syntax_error!` fired (messages are not modelled) -/
inductive ErrClass where
  | invalidFloat | invalidInteger | unclosedString | stringEos | badEscape
  | rawEof | commentUnclosed | unexpectedChar
  deriving Repr, DecidableEq

/-- `rest`, `current_line`, `current_col`, `current_byte` -/
structure Pos where
  rest : Bytes
  line : Nat
  col : Nat
  byte : Nat
  deriving Repr, DecidableEq

inductive Res (α : Type) where
  | ok (a : α)
  | panic (site : String)
  deriving Repr, DecidableEq

/-- the `for c in skipped.chars()` loop of `advance!`, byte by byte -/
def track (line col byte : Nat) : Bytes → Nat × Nat × Nat
  | [] => (line, col, byte)
  | b :: t =>
    if b = 0x0A then track (line + 1) 0 (byte + 1) t
    else if isCont b then track line col (byte + 1) t
    else track line (col + 1) (byte + 1) t

/-- `advance!(n)` (lexer.rs:264-280): `rest.split_at(n)` then bookkeeping; returns `skipped`. -/
def advance (p : Pos) (n : Nat) : Res (Bytes × Pos) :=
  match splitAt? p.rest n with
  | none => .panic "lexer.rs:266 split_at"
  | some (skipped, newRest) =>
    let (l, c, b) := track p.line p.col p.byte skipped
    .ok (skipped, { rest := newRest, line := l, col := c, byte := b })

/-- `make_span!(start)` -/
def mkSpan (start cur : Pos) : Span :=
  { startLine := start.line, startCol := start.col, endLine := cur.line, endCol := cur.col,
    rangeStart := start.byte, rangeEnd := cur.byte }

/-- `check_ws_start!()` (lexer.rs:282-292) -/
def checkWsStart (p : Pos) : Res (Bool × Pos) :=
  if p.rest[2]? = some 0x2D then
    match advance p 3 with
    | .ok (_, p') => .ok (true, p')
    | .panic s => .panic s
  else
    match advance p 2 with
    | .ok (_, p') => .ok (false, p')
    | .panic s => .panic s

/-- first index at which `needle` is a prefix (needle non-empty) -/
def findSub (needle : Bytes) : Bytes → Nat → Option Nat
  | [], _ => none
  | b :: t, i => if needle.isPrefixOf (b :: t) then some i else findSub needle t (i + 1)

/-- `memstr` (lexer.rs:9-13): `haystack.windows(needle.len()).position(|w| w == needle)`;
`windows(0)` panics. -/
def memstr (haystack needle : Bytes) : Res (Option Nat) :=
  if needle.length = 0 then .panic "lexer.rs:11 windows(0)" else .ok (findSub needle haystack 0)

/-- `while let Some(rest) = ptr.strip_prefix(|x: char| x.is_ascii_whitespace())` -/
def stripAsciiWs : Bytes → Bytes
  | [] => []
  | b :: t => if isAsciiWs b then stripAsciiWs t else b :: t

/-- `str::strip_prefix(&str)` -/
def stripPrefix (pre s : Bytes) : Option Bytes :=
  if pre.isPrefixOf s then some (s.drop pre.length) else none

/-- `strip_prefix('-')` applied optionally -/
def stripDash : Bytes → Bytes × Bool
  | 0x2D :: t => (t, true)
  | s => (s, false)

/-- `skip_tag` (lexer.rs:17-40): go over `-? ws* name ws* -? block_end`; (offset, outer_ws). -/
def skipTag (blockStr name blockEnd : Bytes) : Option (Nat × Bool) :=
  let ptr := (stripDash blockStr).1
  let ptr := stripAsciiWs ptr
  match stripPrefix name ptr with
  | none => none
  | some ptr =>
    let ptr := stripAsciiWs ptr
    let (ptr, outerWs) := stripDash ptr
    match stripPrefix blockEnd ptr with
    | none => none
    | some ptr => some (blockStr.length - ptr.length, outerWs)

/-- `find_start_marker` (lexer.rs:43-51): first 2-byte window equal to a start delimiter. -/
def findStartMarkerGo (d : Delims) : Bytes → Nat → Option Nat
  | a :: b :: t, i =>
    if [a, b] = d.variableStart ∨ [a, b] = d.blockStart ∨ [a, b] = d.commentStart then some i
    else findStartMarkerGo d (b :: t) (i + 1)
  | _, _ => none

def findStartMarker (tpl : Bytes) (d : Delims) : Option Nat := findStartMarkerGo d tpl 0

/-- length of the literal text at the head of `rest` (lexer.rs:487-490):
`match find_start_marker(rest, &delimiters) { Some(start) => start, None => rest.len() }` -/
def contentLen (d : Delims) (rest : Bytes) : Nat :=
  match findStartMarker rest d with
  | some start => start
  | none => rest.length

/-- one pass of the loop body -/
inductive Step where
  /-- `return Some(Ok((tok, span)))`, with the new position and state stack -/
  | emit (tok : Token) (span : Span) (p : Pos) (stack : List State)
  /-- `continue` -/
  | skip (p : Pos)
  /-- `syntax_error!` -/
  | error (e : ErrClass) (span : Span)
  | panic (site : String)
  /-- an inner search ran out of fuel (never happens, `raw_loop_fuel`) -/
  | fuel
  deriving Repr, DecidableEq

/-- outcome of the `while let Some(block) = memstr(..)` loop of the raw block -/
inductive RawRes where
  | found (body : Bytes) (consume : Nat) (wsEnd : Bool)
  | eof
  | panic (site : String)
  | fuel

/-- lexer.rs:426-455.  `offset` is the search position in `rest`. -/
def rawLoop (d : Delims) (rest : Bytes) (bodyStart : Nat) (endWsStartTag : Bool) :
    Nat → Nat → RawRes
  | 0, _ => .fuel
  | fuel + 1, offset =>
    if offset > rest.length then .panic "lexer.rs:427 slice start out of range"
    else
      match memstr (rest.drop offset) d.blockStart with
      | .panic s => .panic s
      | .ok none => .eof
      | .ok (some block) =>
        let bodyEnd := offset + block
        let offset := offset + block + 2
        let startWsEndTag := decide (rest[offset]? = some 0x2D)
        match sliceFrom? rest offset with
        | none => .panic "lexer.rs:436 &rest[offset..]"
        | some tail =>
          match skipTag tail endrawName d.blockEnd with
          | some (endraw, wsEnd) =>
            match slice? rest bodyStart bodyEnd with
            | none => .panic "lexer.rs:438 &rest[body_start_offset..body_end_offset]"
            | some result =>
              let result := if endWsStartTag then trimStart result else result
              let result := if startWsEndTag then trimEnd result else result
              .found result (offset + endraw) wsEnd
          | none =>
            -- lexer.rs:452-454 "resume one byte after it": `offset -= 1;` (offset ≥ 2 here, no
            -- underflow); the next byte search `rest.as_bytes()[offset..]` may start inside a char
            rawLoop d rest bodyStart endWsStartTag fuel (offset - 1)

/-- `Some(State::Template)` arm (lexer.rs:409-492) -/
def stepTemplate (d : Delims) (p0 : Pos) (stack : List State) : Step :=
  let head := getRange p0.rest 0 2
  if head = some d.variableStart then
    match checkWsStart p0 with
    | .panic s => .panic s
    | .ok (ws, p) => .emit (.variableStart ws) (mkSpan p0 p) p (State.variable :: stack)
  else if head = some d.blockStart then
    match checkWsStart p0 with
    | .panic s => .panic s
    | .ok (ws, p) =>
      match skipTag p.rest rawName d.blockEnd with
      | some (offset, endWsStartTag) =>
        match rawLoop d p.rest offset endWsStartTag (p.rest.length + 1) offset with
        | .found body consume wsEnd =>
          match advance p consume with
          | .panic s => .panic s
          | .ok (_, p') => .emit (.rawContent ws body wsEnd) (mkSpan p0 p') p' stack
        | .eof => .error .rawEof (mkSpan p0 p)
        | .panic s => .panic s
        | .fuel => .fuel
      | none => .emit (.tagStart ws) (mkSpan p0 p) p (State.tag :: stack)
  else if head = some d.commentStart then
    match checkWsStart p0 with
    | .panic s => .panic s
    | .ok (wsStart, p) =>
      match memstr p.rest d.commentEnd with
      | .panic s => .panic s
      | .ok (some endPos) =>
        let wsEnd := if endPos > 0 then decide (p.rest[endPos - 1]? = some 0x2D) else false
        match advance p (endPos + 2) with
        | .panic s => .panic s
        | .ok (_, p') => .emit (.comment wsStart wsEnd) (mkSpan p0 p') p' stack
      | .ok none => .error .commentUnclosed (mkSpan p0 p)
  else
    match advance p0 (contentLen d p0.rest) with
    | .panic s => .panic s
    | .ok (text, p) => .emit (.content text) (mkSpan p0 p) p stack

/-- the `take_while` of `lex_number!`: (length, is_float) -/
def numLen : Bool → Bytes → Nat × Bool
  | isFloat, [] => (0, isFloat)
  | isFloat, c :: t =>
    if !isFloat && c == 0x2E then
      let (n, f) := numLen true t
      (n + 1, f)
    else if isAsciiDigit c then
      let (n, f) := numLen isFloat t
      (n + 1, f)
    else (0, isFloat)

/-- value of a string of ASCII digits -/
def decVal (s : Bytes) : Nat := s.foldl (fun acc b => acc * 10 + (b - 0x30)) 0

def I64_MAX : Nat := 9223372036854775807

/-- `lex_number!()` (lexer.rs:294-329).  `str::parse::<i64>` of a non-empty digit string fails iff
the value exceeds `i64::MAX`; `str::parse::<f64>` of `digits '.' digits*` never fails (std). -/
def lexNumber (p0 : Pos) (stack : List State) : Step :=
  let (numLength, isFloat) := numLen false p0.rest
  match advance p0 numLength with
  | .panic s => .panic s
  | .ok (num, p) =>
    if isFloat then .emit (.float num) (mkSpan p0 p) p stack
    else if decVal num ≤ I64_MAX then .emit (.integer (decVal num)) (mkSpan p0 p) p stack
    else .error .invalidInteger (mkSpan p0 p)

/-- the `take_while` of `lex_string!` over `rest.bytes().skip(1)`: (str_len, has_escapes) -/
def strLen (delim : Nat) : Bool → Bool → Bytes → Nat × Bool
  | _, has, [] => (0, has)
  | escaped, has, c :: t =>
    if escaped then
      let (n, h) := strLen delim false has t
      (n + 1, h)
    else if c = 0x5C then
      let (n, h) := strLen delim true true t
      (n + 1, h)
    else if c ≠ delim then
      let (n, h) := strLen delim false has t
      (n + 1, h)
    else (0, has)

/-- "Basic unescaping" (lexer.rs:369-391); `none` = unexpected end, `some none` = bad escape -/
inductive Unesc where
  | ok (s : Bytes) | eos | badEscape

def unescape : Bytes → Unesc
  | [] => .ok []
  | c :: t =>
    if c = 0x5C then
      match t with
      | [] => .eos
      | c2 :: t2 =>
        match escapes.lookup c2 with
        | some o =>
          match unescape t2 with
          | .ok r => .ok (o :: r)
          | e => e
        | none => .badEscape
    else
      match unescape t with
      | .ok r => .ok (c :: r)
      | e => e

/-- `lex_string!(delim)` (lexer.rs:331-398) -/
def lexString (delim : Nat) (p0 : Pos) (stack : List State) : Step :=
  let (strLength, hasEscapes) := strLen delim false false (p0.rest.drop 1)
  if p0.rest[strLength + 1]? ≠ some delim then .error .unclosedString (mkSpan p0 p0)
  else
    match advance p0 (strLength + 2) with
    | .panic s => .panic s
    | .ok (s, p) =>
      match slice? s 1 (s.length - 1) with
      | none => .panic "lexer.rs:366 &s[1..s.len() - 1]"
      | some content =>
        if hasEscapes then
          match unescape content with
          | .ok out => .emit (.string out) (mkSpan p0 p) p stack
          | .eos => .error .stringEos (mkSpan p0 p)
          | .badEscape => .error .badEscape (mkSpan p0 p)
        else .emit (.str content) (mkSpan p0 p) p stack

/-- the `take_while` of the ident scan (lexer.rs:608-621) -/
def identLen : Nat → Bytes → Nat
  | _, [] => 0
  | idx, c :: t =>
    if c = 0x5F then identLen (idx + 1) t + 1
    else if idx = 0 then (if isAsciiAlpha c then identLen (idx + 1) t + 1 else 0)
    else (if isAsciiAlnum c then identLen (idx + 1) t + 1 else 0)

/-- emit a fixed-width token after `advance!(n)` -/
def emitAfter (p0 : Pos) (n : Nat) (tok : Token) (stack : List State) : Step :=
  match advance p0 n with
  | .panic s => .panic s
  | .ok (_, p) => .emit tok (mkSpan p0 p) p stack

/-- `match rest.as_bytes().get(..2) { Some(b"//") => …, _ => None }` (lexer.rs:556-567) -/
def lookupOp2 (rest : Bytes) : Option Op :=
  match rest with
  | a :: b :: _ => ops2.lookup [a, b]
  | _ => none

/-- lexer.rs:549-635: operators, strings, numbers, idents (after the end-delimiter check) -/
def lexExprToken (p0 : Pos) (stack : List State) : Step :=
  let rest := p0.rest
  if rest.take spreadBytes.length = spreadBytes then emitAfter p0 spreadBytes.length (.op .Spread) stack
  else
    match lookupOp2 rest with
    | some o => emitAfter p0 2 (.op o) stack
    | none =>
      match rest.head? with
      | none => .error .unexpectedChar (mkSpan p0 p0)
      | some c =>
        match ops1.lookup c with
        | some o => emitAfter p0 1 (.op o) stack
        | none =>
          if stringQuotes.contains c then lexString c p0 stack
          else if isAsciiDigit c then lexNumber p0 stack
          else
            let identLength := identLen 0 rest
            if identLength > 0 then
              match advance p0 identLength with
              | .panic s => .panic s
              | .ok (ident, p) =>
                match boolKeywords.lookup ident with
                | some b => .emit (.bool b) (mkSpan p0 p) p stack
                | none => .emit (.ident ident) (mkSpan p0 p) p stack
            else .error .unexpectedChar (mkSpan p0 p0)

/-- number of leading ASCII-whitespace bytes.  lexer.rs:495-509:
`rest.bytes().position(|x| !x.is_ascii_whitespace())` is `Some(wsLen)` when a non-whitespace byte
exists and `None` (then `advance!(rest.len())`, and `rest.len() = wsLen`) otherwise, so in both
non-zero cases `wsLen rest` bytes are skipped. -/
def wsLen : Bytes → Nat
  | [] => 0
  | b :: t => if isAsciiWs b then wsLen t + 1 else 0

/-- the check for `-{end}` / `{end}` (lexer.rs:513-545) -/
def endCheck (p0 : Pos) (below : List State) (endDelim : Bytes) (mk : Bool → Token) : Option Step :=
  if getRange p0.rest 0 1 = some [0x2D] ∧ getRange p0.rest 1 3 = some endDelim then
    some (emitAfter p0 3 (mk true) below)
  else if getRange p0.rest 0 2 = some endDelim then
    some (emitAfter p0 2 (mk false) below)
  else none

/-- `Some(State::Variable) | Some(State::Tag)` arm (lexer.rs:493-636); `top` is `stack.last()`,
`below` the stack after `stack.pop()`. -/
def stepInTag (d : Delims) (p0 : Pos) (top : State) (below : List State) : Step :=
  let offset := wsLen p0.rest
  if offset ≠ 0 then
    match advance p0 offset with
    | .panic s => .panic s
    | .ok (_, p) => .skip p
  else
    match top with
    | .tag =>
      match endCheck p0 below d.blockEnd .tagEnd with
      | some s => s
      | none => lexExprToken p0 (top :: below)
    | .variable =>
      match endCheck p0 below d.variableEnd .variableEnd with
      | some s => s
      | none => lexExprToken p0 (top :: below)
    | .template => .panic "lexer.rs:546 unreachable"

/-- one pass through the loop body (`rest` is non-empty, not errored); the stack's top is its head -/
def step (d : Delims) (p : Pos) (stack : List State) : Step :=
  match stack with
  | [] => .panic "lexer.rs:637 unreachable: Lexer should never be in that state"
  | .template :: _ => stepTemplate d p stack
  | top :: below => stepInTag d p top below

inductive Ending where
  /-- `rest.is_empty()`: the iterator ends -/
  | eof
  /-- a `syntax_error!` item was produced, then the iterator ends (`errored`) -/
  | error (e : ErrClass) (span : Span)
  | panic (site : String)
  | outOfFuel
  deriving Repr, DecidableEq

structure LexResult where
  tokens : List (Token × Span)
  ending : Ending
  deriving Repr, DecidableEq

/-- the `from_fn` iterator collected: `fuel` bounds the number of loop passes -/
def lexLoop (d : Delims) : Nat → Pos → List State → LexResult
  | 0, _, _ => ⟨[], .outOfFuel⟩
  | fuel + 1, p, stack =>
    if p.rest = [] then ⟨[], .eof⟩
    else
      match step d p stack with
      | .emit tok span p' stack' =>
        let r := lexLoop d fuel p' stack'
        ⟨(tok, span) :: r.tokens, r.ending⟩
      | .skip p' => lexLoop d fuel p' stack
      | .error e span => ⟨[], .error e span⟩
      | .panic s => ⟨[], .panic s⟩
      | .fuel => ⟨[], .outOfFuel⟩

def startPos (src : Bytes) : Pos := { rest := src, line := 1, col := 0, byte := 0 }

/-- `basic_tokenize(input, delimiters)` collected; fuel `|src| + 1` always suffices
(`Tera.C06.lexer_progress`). -/
def basicTokenize (d : Delims) (src : Bytes) : LexResult :=
  lexLoop d (src.length + 1) (startPos src) [.template]

end Tera.Lexer
