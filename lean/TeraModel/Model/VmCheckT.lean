/-
`checkChunk` (Model/VmCheck.lean) with the certificate given instead of inferred: `checkChunkT env
c table` checks the same three things — the chunk's template is registered, the names it refers
to are registered, and `table` passes `verify` — without going through `infer`.  A proof that the
compiler's / optimiser's output always HAS a verifying table (`∃ table, verify code table = true`)
therefore feeds the soundness theorem directly; `checkChunk` is the special case where the table is
the inferred one (`checkChunkT_of_checkChunk`).
-/
import TeraModel.Model.VmCheck
namespace Tera
namespace Vm

/-- `checkChunk` with the table supplied. -/
def checkChunkT (env : Env) (c : Chunk) (table : List (Option ASt)) : Bool :=
  (env.template c.name).isSome && c.code.all (fun e => namesOk env e.1) && verify c.code table

/-- some table certifies the chunk -/
def ChunkOKT (env : Env) (c : Chunk) : Prop := ∃ table, checkChunkT env c table = true

theorem checkChunkT_of_checkChunk {env : Env} {c : Chunk} (h : checkChunk env c = true) :
    ChunkOKT env c := by
  unfold checkChunk at h
  cases hi : infer c.code with
  | none => rw [hi] at h; simp at h
  | some table => rw [hi] at h; exact ⟨table, h⟩

end Vm
end Tera
