/-
The serde bridge of tera: tera/src/value/ser.rs (`ValueSerializer`, `MapKeySerializer`) and
tera/src/value/de.rs (`ValueDeserializer`, `impl Deserializer for Value / &Value`) composed with the
reference behaviour of serde's own and serde-derive's visitors; `Value::format` / `format_map`
(value/mod.rs) and the three ways of filling a `Context` (context.rs).

A Rust type of the family the property talks about is an `STy`, a value of such a type an `SVal`.
`ser` is what `Value::from_serializable(&x)` builds, `de t v` is what `T::deserialize(v)` returns
(the three entry points — owned `Value`, `&Value`, `ValueDeserializer` — run the same code: the
first two construct a `ValueDeserializer` and call the method of the same name).

Maps are association lists: the order of the list stands for the iteration order of the `HashMap`,
which no theorem depends on (`maps_print_sorted` is stated for every permutation).
-/
import TeraModel.Model.Value
import TeraModel.Model.Contrib
namespace Tera.Serde

abbrev Name := List Char

inductive IntTy where
  | i8 | i16 | i32 | i64 | i128 | u8 | u16 | u32 | u64 | u128
  deriving Repr, DecidableEq, Inhabited

def IntTy.min : IntTy → Int
  | .i8 => -(2:Int)^7 | .i16 => -(2:Int)^15 | .i32 => -(2:Int)^31 | .i64 => -(2:Int)^63
  | .i128 => -(2:Int)^127 | _ => 0

def IntTy.max : IntTy → Int
  | .i8 => (2:Int)^7 - 1 | .i16 => (2:Int)^15 - 1 | .i32 => (2:Int)^31 - 1 | .i64 => (2:Int)^63 - 1
  | .i128 => (2:Int)^127 - 1 | .u8 => (2:Int)^8 - 1 | .u16 => (2:Int)^16 - 1 | .u32 => (2:Int)^32 - 1
  | .u64 => (2:Int)^64 - 1 | .u128 => (2:Int)^128 - 1

def IntTy.inRange (t : IntTy) (n : Int) : Prop := t.min ≤ n ∧ n ≤ t.max
instance (t : IntTy) (n : Int) : Decidable (t.inRange n) := by unfold IntTy.inRange; infer_instance

/-- the four enum variant shapes of the serde data model -/
inductive VKind where
  | unit | newtype | tuple | struct
  deriving Repr, DecidableEq, Inhabited

/-- A Rust type. A variant is `(name, kind, payload type)`: the payload type of a unit variant is
`unit`, of a newtype variant its field type, of a tuple variant a `tuple`, of a struct variant a
`struct`. `cstring` is the one std type that goes through `serialize_bytes`. -/
inductive STy where
  | bool | int (t : IntTy) | f32 | f64 | char | string | unit | cstring
  | option (t : STy)
  | seq (t : STy)
  | tuple (ts : List STy)
  | map (k : STy) (v : STy)
  | struct (fs : List (Name × STy))
  | newtype (t : STy)
  | unitStruct
  | enum (vs : List (Name × VKind × STy))
  deriving Repr, Inhabited

/-- A Rust value, as the sequence of `Serializer` calls its (derived) `Serialize` impl makes. -/
inductive SVal where
  | bool (b : Bool)
  | int (t : IntTy) (n : Int)
  | f32 (x : F64)
  | f64 (x : F64)
  | char (c : Char)
  | str (s : List Char)
  | unit
  | cstring (bs : List Nat)
  | none
  | some (v : SVal)
  | seq (xs : List SVal)
  | tuple (xs : List SVal)
  | map (es : List (SVal × SVal))
  | struct (fs : List (Name × SVal))
  | newtype (v : SVal)
  | unitStruct
  | variant (name : Name) (kind : VKind) (payload : SVal)
  deriving Repr, Inhabited

inductive SerErr where
  /-- "map key must be string, integer, or bool" -/
  | badKey
  deriving Repr, DecidableEq

inductive DeErr where
  | invalidType | invalidValue | invalidLength | unknownVariant | missingField | duplicateField
  deriving Repr, DecidableEq

/-! ## keys and maps -/

def keyNum : Key → Option Int
  | .u64 n => some (n : Int) | .i64 n => some n | .u128 n => some (n : Int) | .i128 n => some n
  | _ => Option.none

/-- `impl PartialEq for Key`: strings by content, bools, integers by numeric value whatever the
variant. -/
def keyEq : Key → Key → Bool
  | .str a, .str b => a == b
  | .bool a, .bool b => a == b
  | a, b =>
    match keyNum a, keyNum b with
    | some x, some y => x == y
    | _, _ => false

/-- `HashMap::insert`: replace the value of an equal key, else add. -/
def mapInsert (k : Key) (v : Value) : List (Key × Value) → List (Key × Value)
  | [] => [(k, v)]
  | (k', v') :: rest => if keyEq k' k then (k', v) :: rest else (k', v') :: mapInsert k v rest

/-! ## ser.rs -/

/-- `ValueSerializer::serialize_{i8…u128}` -/
def serInt (t : IntTy) (n : Int) : Value :=
  match t with
  | .i8 | .i16 | .i32 | .i64 => .i64 n
  | .u8 | .u16 | .u32 | .u64 => .u64 n.toNat
  | .i128 => .i128 n
  | .u128 => .u128 n.toNat

/-- `MapKeySerializer::serialize_{i8…u128}` -/
def serKeyInt (t : IntTy) (n : Int) : Key :=
  match t with
  | .i8 | .i16 | .i32 | .i64 => .i64 n
  | .u8 | .u16 | .u32 | .u64 => .u64 n.toNat
  | .i128 => .i128 n
  | .u128 => .u128 n.toNat

/-- `key.serialize(MapKeySerializer)`: bools, integers, chars, strings, unit variants; `Some(k)` and
newtype structs are looked through; everything else is refused. -/
def serKey : SVal → Except SerErr Key
  | .bool b => .ok (.bool b)
  | .int t n => .ok (serKeyInt t n)
  | .char c => .ok (.str [c])
  | .str s => .ok (.str s)
  | .some v => serKey v
  | .newtype v => serKey v
  | .variant name .unit _ => .ok (.str name)
  | _ => .error .badKey

def mapE {α β ε : Type} (f : α → Except ε β) : List α → Except ε (List β)
  | [] => .ok []
  | x :: xs =>
    match f x with
    | .error e => .error e
    | .ok y =>
      match mapE f xs with
      | .error e => .error e
      | .ok ys => .ok (y :: ys)

mutual
/-- `value.serialize(ValueSerializer)` -/
def ser : SVal → Except SerErr Value
  | .bool b => .ok (.bool b)
  | .int t n => .ok (serInt t n)
  | .f32 x => .ok (.f64 x)            -- `v as f64` is exact
  | .f64 x => .ok (.f64 x)
  | .char c => .ok (.str false [c])
  | .str s => .ok (.str false s)
  | .unit => .ok .none
  | .cstring bs => .ok (.bytes bs)
  | .none => .ok .none
  | .some v => ser v
  | .seq xs => match serList xs with | .ok vs => .ok (.arr vs) | .error e => .error e
  | .tuple xs => match serList xs with | .ok vs => .ok (.arr vs) | .error e => .error e
  | .map es => match serEntries es [] with | .ok m => .ok (.map m) | .error e => .error e
  | .struct fs => match serFields fs [] with | .ok m => .ok (.map m) | .error e => .error e
  | .newtype v => ser v
  | .unitStruct => .ok .none
  | .variant name .unit _ => .ok (.str false name)
  | .variant name _ payload =>
    -- newtype / tuple / struct variants: a map with the single key `variant`
    match ser payload with
    | .ok p => .ok (.map [(.str name, p)])
    | .error e => .error e

def serList : List SVal → Except SerErr (List Value)
  | [] => .ok []
  | x :: xs =>
    match ser x with
    | .error e => .error e
    | .ok v => match serList xs with | .ok vs => .ok (v :: vs) | .error e => .error e

/-- `SerializeMap::serialize_key` then `serialize_value`, entry by entry -/
def serEntries : List (SVal × SVal) → List (Key × Value) → Except SerErr (List (Key × Value))
  | [], acc => .ok acc
  | (k, v) :: es, acc =>
    match serKey k with
    | .error e => .error e
    | .ok key =>
      match ser v with
      | .error e => .error e
      | .ok value => serEntries es (mapInsert key value acc)

/-- `SerializeStruct::serialize_field` -/
def serFields : List (Name × SVal) → List (Key × Value) → Except SerErr (List (Key × Value))
  | [], acc => .ok acc
  | (n, v) :: fs, acc =>
    match ser v with
    | .error e => .error e
    | .ok value => serFields fs (mapInsert (.str n) value acc)
end

/-! ## de.rs + serde's visitors -/

/-- `as f32` casts (Rust/hardware), parameters of the model; executed natively by the driver -/
structure FloatCasts where
  /-- `(v as f32) as f64` for an f64 -/
  f64to32 : F64 → F64
  /-- `(n as f32) as f64` for an integer -/
  intTo32 : Int → F64

/-- the integer a `visit_i64/u64/i128/u128` call would carry, with the visitor method's width -/
inductive IntVisit where
  | small (n : Int)   -- visit_i64 / visit_u64
  | wide (n : Int)    -- visit_i128 / visit_u128
def intVisit : Value → Option IntVisit
  | .i64 n => some (.small n) | .u64 n => some (.small (n : Int))
  | .i128 n => some (.wide n) | .u128 n => some (.wide (n : Int))
  | _ => Option.none

/-- serde's integer visitors (`impl_deserialize_num!`): 64-bit visits are range-checked into every
width; 128-bit visits are accepted by `i128`/`u128` only. -/
def deInt (t : IntTy) (v : Value) : Except DeErr SVal :=
  match intVisit v with
  | Option.none => .error .invalidType
  | some (.small n) => if t.inRange n then .ok (.int t n) else .error .invalidValue
  | some (.wide n) =>
    match t with
    | .i128 | .u128 => if t.inRange n then .ok (.int t n) else .error .invalidValue
    | _ => .error .invalidType

/-- field / variant identifier from a key value (`__FieldVisitor`: `visit_u64` is a position,
`visit_str` a name; anything else is an invalid type). `none` = not one of ours. -/
def identOf (names : List Name) (k : Value) : Except DeErr (Option Nat) :=
  match k with
  | .u64 n => .ok (if n < names.length then some n else Option.none)
  | .str _ s => .ok (let i := names.idxOf s; if i < names.length then some i else Option.none)
  | .bytes bs =>
    match Contrib.utf8Decode bs with
    | some s => .ok (let i := names.idxOf s; if i < names.length then some i else Option.none)
    | Option.none => .ok Option.none
  | _ => .error .invalidType

/-- the values a struct visitor's `visit_map` sees for field number `i` -/
def fieldCandidates (names : List Name) (i : Nat) : List (Key × Value) → Except DeErr (List Value)
  | [] => .ok []
  | (k, v) :: es =>
    match identOf names (Wire.keyToValue k) with
    | .error e => .error e
    | .ok id =>
      match fieldCandidates names i es with
      | .error e => .error e
      | .ok vs => .ok (if id = some i then v :: vs else vs)

def isOptionTy : STy → Bool
  | .option _ => true
  | _ => false

mutual
/-- `T::deserialize(value)` -/
def de (fc : FloatCasts) : STy → Value → Except DeErr SVal
  | .bool, v => match v with | .bool b => .ok (.bool b) | _ => .error .invalidType
  | .int t, v => deInt t v
  | .f32, v =>
    match v with
    | .f64 x => .ok (.f32 (fc.f64to32 x))
    | .i64 n => .ok (.f32 (fc.intTo32 n))
    | .u64 n => .ok (.f32 (fc.intTo32 (n : Int)))
    | _ => .error .invalidType
  | .f64, v =>
    match v with
    | .f64 x => .ok (.f64 x)
    | .i64 n => .ok (.f64 (F64.ofIntRNE n))
    | .u64 n => .ok (.f64 (F64.ofIntRNE (n : Int)))
    | _ => .error .invalidType
  | .char, v =>
    match v with
    | .str _ [c] => .ok (.char c)
    | .str _ _ => .error .invalidValue
    | _ => .error .invalidType
  | .string, v =>
    match v with
    | .str _ s => .ok (.str s)
    | .bytes bs => match Contrib.utf8Decode bs with | some s => .ok (.str s) | Option.none => .error .invalidValue
    | _ => .error .invalidType
  | .unit, v => match v with | .none | .undef => .ok .unit | _ => .error .invalidType
  | .unitStruct, v => match v with | .none | .undef => .ok .unitStruct | _ => .error .invalidType
  | .cstring, v =>
    -- `CStringVisitor` then `CString::new`
    match v with
    | .bytes bs => if 0 ∈ bs then .error .invalidValue else .ok (.cstring bs)
    | .str _ s => let bs := Contrib.utf8Encode s; if 0 ∈ bs then .error .invalidValue else .ok (.cstring bs)
    | .arr xs =>
      match mapE (fun x => match deInt .u8 x with | .ok (.int _ n) => Except.ok n.toNat | .ok _ => .error .invalidType | .error e => .error e) xs with
      | .error e => .error e
      | .ok bs => if 0 ∈ bs then .error .invalidValue else .ok (.cstring bs)
    | _ => .error .invalidType
  | .option t, v =>
    -- `deserialize_option`: none and undefined are `None`, everything else `Some(T::deserialize)`
    match v with
    | .none | .undef => .ok .none
    | _ => match de fc t v with | .ok x => .ok (.some x) | .error e => .error e
  | .seq t, v =>
    match v with
    | .arr xs => match mapE (de fc t) xs with | .ok ys => .ok (.seq ys) | .error e => .error e
    | _ => .error .invalidType
  | .tuple ts, v =>
    match v with
    | .arr xs => match deTuple fc ts xs with | .ok ys => .ok (.tuple ys) | .error e => .error e
    | _ => .error .invalidType
  | .map kt vt, v =>
    match v with
    | .map es =>
      match mapE (fun (e : Key × Value) =>
          match de fc kt (Wire.keyToValue e.1) with
          | .error err => Except.error err
          | .ok k => match de fc vt e.2 with | .ok x => .ok (k, x) | .error err => .error err) es with
      | .ok ys => .ok (.map ys)
      | .error e => .error e
    | _ => .error .invalidType
  | .struct fs, v =>
    match v with
    | .map es => match deFields fc (fs.map (·.1)) 0 fs es with | .ok ys => .ok (.struct ys) | .error e => .error e
    | .arr xs => match deFieldsSeq fc fs xs with | .ok ys => .ok (.struct ys) | .error e => .error e
    | _ => .error .invalidType
  | .newtype t, v =>
    -- `deserialize_newtype_struct` → `visitor.visit_newtype_struct(self)` → the field's own impl
    match de fc t v with | .ok x => .ok (.newtype x) | .error e => .error e
  | .enum vs, v =>
    -- `deserialize_enum`: a string names a variant without payload, a single-entry map a variant
    -- with payload
    match v with
    | .str _ s => deVariant fc (vs.map (·.1)) 0 vs (.str false s) Option.none
    | .map [(k, p)] => deVariant fc (vs.map (·.1)) 0 vs (Wire.keyToValue k) (some p)
    | .map _ => .error .invalidValue
    | _ => .error .invalidType

/-- positional fields (`visit_seq` of tuples, tuple structs and variants): too few elements is an
error, surplus elements are left unread (de.rs never calls `SeqDeserializer::end`) -/
def deTuple (fc : FloatCasts) : List STy → List Value → Except DeErr (List SVal)
  | [], _ => .ok []
  | _ :: _, [] => .error .invalidLength
  | t :: ts, x :: xs =>
    match de fc t x with
    | .error e => .error e
    | .ok y => match deTuple fc ts xs with | .ok ys => .ok (y :: ys) | .error e => .error e

/-- a derived struct visitor's `visit_seq` -/
def deFieldsSeq (fc : FloatCasts) : List (Name × STy) → List Value → Except DeErr (List (Name × SVal))
  | [], _ => .ok []
  | _ :: _, [] => .error .invalidLength
  | (n, t) :: fs, x :: xs =>
    match de fc t x with
    | .error e => .error e
    | .ok y => match deFieldsSeq fc fs xs with | .ok ys => .ok ((n, y) :: ys) | .error e => .error e

/-- a derived struct visitor's `visit_map`, field by field (`i` is the field's position): exactly
one entry → its value; none → `None` for an `Option` field, else `missing_field`; several →
`duplicate_field`. Entries naming no field are ignored. -/
def deFields (fc : FloatCasts) (names : List Name) : Nat → List (Name × STy) → List (Key × Value) →
    Except DeErr (List (Name × SVal))
  | _, [], _ => .ok []
  | i, (n, t) :: fs, es =>
    match fieldCandidates names i es with
    | .error e => .error e
    | .ok [] =>
      if isOptionTy t then
        match deFields fc names (i + 1) fs es with | .ok ys => .ok ((n, .none) :: ys) | .error e => .error e
      else .error .missingField
    | .ok [x] =>
      match de fc t x with
      | .error e => .error e
      | .ok y => match deFields fc names (i + 1) fs es with | .ok ys => .ok ((n, y) :: ys) | .error e => .error e
    | .ok _ => .error .duplicateField

/-- `EnumAccess::variant_seed` + `VariantAccess`: find the variant the identifier names, then read
the payload according to the variant's shape. -/
def deVariant (fc : FloatCasts) (names : List Name) : Nat → List (Name × VKind × STy) → Value → Option Value →
    Except DeErr SVal
  | _, [], ident, _ =>
    match identOf names ident with
    | .error e => .error e
    | .ok _ => .error .unknownVariant
  | i, (n, kind, t) :: vs, ident, payload =>
    match identOf names ident with
    | .error e => .error e
    | .ok id =>
      if id = some i then
        match kind, payload with
        | .unit, Option.none => .ok (.variant n .unit .unit)
        | .unit, some p =>
          -- `unit_variant`: `<()>::deserialize(value)`
          match p with
          | .none | .undef => .ok (.variant n .unit .unit)
          | _ => .error .invalidType
        | .newtype, some p => match de fc t p with | .ok x => .ok (.variant n .newtype x) | .error e => .error e
        | .tuple, some (.arr xs) =>
          match de fc t (.arr xs) with | .ok x => .ok (.variant n .tuple x) | .error e => .error e
        | .struct, some (.map es) =>
          match de fc t (.map es) with | .ok x => .ok (.variant n .struct x) | .error e => .error e
        | _, _ => .error .invalidType
      else deVariant fc names (i + 1) vs ident payload
end

/-! ## printing: `Value::format`, `format_map` (value/mod.rs), `Key::format`, `impl Ord for Key` -/

/-- lexicographic order on strings by code point (= byte order of the UTF-8 forms, `str::cmp`) -/
def strLe : List Char → List Char → Bool
  | [], _ => true
  | _ :: _, [] => false
  | a :: as, b :: bs => if a.toNat < b.toNat then true else if a.toNat = b.toNat then strLe as bs else false

/-- `type_order` of key.rs -/
def keyRank : Key → Nat
  | .bool _ => 0
  | .u64 _ | .i64 _ | .u128 _ | .i128 _ => 1
  | .str _ => 2

/-- `a <= b` for `impl Ord for Key`: strings by content, bools, integers by value, else by rank -/
def keyLe : Key → Key → Bool
  | .str a, .str b => strLe a b
  | .bool a, .bool b => !a || b
  | a, b =>
    match keyNum a, keyNum b with
    | some x, some y => decide (x ≤ y)
    | _, _ => decide (keyRank a ≤ keyRank b)

/-- `sort_by_key(|e| e.0)` (stable insertion sort) -/
def insertEntry {α : Type} (e : Key × α) : List (Key × α) → List (Key × α)
  | [] => [e]
  | x :: xs => if keyLe e.1 x.1 then e :: x :: xs else x :: insertEntry e xs

def sortEntries {α : Type} : List (Key × α) → List (Key × α)
  | [] => []
  | e :: es => insertEntry e (sortEntries es)

/-- std formatting the model does not define: parameters, supplied per input by the real std in
the correspondence run -/
structure FmtParams where
  /-- `format!("{:?}", s)` for a `&str` -/
  strDebug : List Char → List Char
  /-- `format!("{:?}", x)` for an f64 -/
  floatDebug : F64 → List Char
  /-- `String::from_utf8_lossy` -/
  lossy : List Nat → List Char

def fmtKey : Key → List Char
  | .bool b => if b then ['t','r','u','e'] else ['f','a','l','s','e']
  | .u64 n => Contrib.natDigits n
  | .i64 n => Contrib.intDigits n
  | .u128 n => Contrib.natDigits n
  | .i128 n => Contrib.intDigits n
  | .str s => s

def joinWith (sep : List Char) : List (List Char) → List Char
  | [] => []
  | [x] => x
  | x :: y :: rest => x ++ sep ++ joinWith sep (y :: rest)

mutual
/-- `Value::format` (what `{{ v }}` writes, before escaping). A map's entries are rendered, then
put in key order (`format_map` sorts the entries first and renders them in that order, which is
the same text). -/
def fmtValue (P : FmtParams) : Value → List Char
  | .undef => []
  | .none => []
  | .bool b => if b then ['t','r','u','e'] else ['f','a','l','s','e']
  | .bytes bs => P.lossy bs
  | .str _ s => s
  | .u64 n => Contrib.natDigits n
  | .i64 n => Contrib.intDigits n
  | .u128 n => Contrib.natDigits n
  | .i128 n => Contrib.intDigits n
  | .f64 x => P.floatDebug x
  | .arr xs => '[' :: joinWith [',', ' '] (fmtElems P xs) ++ [']']
  | .map es => '{' :: joinWith [',', ' '] ((sortEntries (fmtEntries P es)).map (·.2)) ++ ['}']

/-- elements of a container: strings are written with `{:?}` -/
def fmtElems (P : FmtParams) : List Value → List (List Char)
  | [] => []
  | v :: vs => (match v with | .str _ s => P.strDebug s | _ => fmtValue P v) :: fmtElems P vs

def fmtEntries (P : FmtParams) : List (Key × Value) → List (Key × List Char)
  | [] => []
  | (k, v) :: es =>
    (k, (match k with | .str s => P.strDebug s | _ => fmtKey k) ++ [':', ' ']
        ++ (match v with | .str _ s => P.strDebug s | _ => fmtValue P v)) :: fmtEntries P es
end

/-! ## context.rs -/

/-- a `Context`: `BTreeMap<String, Value>` as an association list -/
abbrev Ctx := List (List Char × Value)

def ctxInsert (k : List Char) (v : Value) : Ctx → Ctx
  | [] => [(k, v)]
  | (k', v') :: rest => if k' = k then (k', v) :: rest else (k', v') :: ctxInsert k v rest

def ctxGet (k : List Char) : Ctx → Option Value
  | [] => Option.none
  | (k', v) :: rest => if k' = k then some v else ctxGet k rest

/-- `Context::insert(key, &val)` = `insert_value(key, Value::from_serializable(val))`; `none` is
the panic of `from_serializable` on an unserialisable value -/
def ctxInsertSer (k : List Char) (x : SVal) (c : Ctx) : Option Ctx :=
  match ser x with
  | .ok v => some (ctxInsert k v c)
  | .error _ => Option.none

/-- `Context::from_serialize(&x)`: the value must serialise to a map; every key is stringified -/
def ctxFromSerialize (x : SVal) : Option Ctx :=
  match ser x with
  | .ok (.map es) => some (es.foldl (fun c (e : Key × Value) => ctxInsert (fmtKey e.1) e.2 c) [])
  | _ => Option.none

/-- `context.insert(name, &field)` for every field of a struct, in order; `none` = the panic of
`insert` on an unserialisable value -/
def insertAll : List (Name × SVal) → Ctx → Option Ctx
  | [], c => some c
  | (n, x) :: rest, c =>
    match ctxInsertSer n x c with
    | some c' => insertAll rest c'
    | Option.none => Option.none

/-- `insert_value(name, value)` for every entry of an already converted map -/
def ctxOfEntries (m : List (Key × Value)) : Ctx :=
  m.foldl (fun c (e : Key × Value) => ctxInsert (fmtKey e.1) e.2 c) []

/-! ## args.rs: the typed readers `T::try_from(Value)`, `ArgFromValue::from_value`, `Kwargs::get::<T>` -/

inductive ArgErr where
  /-- `ErrorKind::InvalidArgument` -/
  | invalidType
  /-- `ErrorKind::OutOfRangeArgument` -/
  | outOfRange
  deriving Repr, DecidableEq

/-- `int_from_value::<T>`: every integer kind is range-checked into `T`; a float is accepted when
it is a whole number inside i128 (±inf pass the `trunc() == v` guard and are then out of range; a
fractional float or NaN falls to the invalid-type arm). -/
def argInt (t : IntTy) (v : Value) : Except ArgErr SVal :=
  match v.intVal with
  | some n => if t.inRange n then .ok (.int t n) else .error .outOfRange
  | Option.none =>
    match v with
    | .f64 (.inf _) => .error .outOfRange
    | .f64 (.fin neg m e) =>
      let x : F64 := .fin neg m e
      if x.fractIsZero then
        let n := x.truncInt
        if -(2:Int)^127 ≤ n ∧ n < (2:Int)^127 ∧ t.inRange n then .ok (.int t n) else .error .outOfRange
      else .error .invalidType
    | _ => .error .invalidType

/-- `f32_from_value`: integers and floats are cast with `as f32`; a finite input that does not
fit (the cast gives an infinity) is out of range, a non-finite input stays what it is. -/
def argF32 (fc : FloatCasts) (v : Value) : Except ArgErr SVal :=
  match v.intVal with
  | some n => let c := fc.intTo32 n; if c.isFinite then .ok (.f32 c) else .error .outOfRange
  | Option.none =>
    match v with
    | .f64 x => let c := fc.f64to32 x; if c.isFinite || !x.isFinite then .ok (.f32 c) else .error .outOfRange
    | _ => .error .invalidType

/-- the `f64` reader (`impl_for_literal!`): integers are cast with `as f64`, a float is itself -/
def argF64 (v : Value) : Except ArgErr SVal :=
  match v.intVal with
  | some n => .ok (.f64 (F64.ofIntRNE n))
  | Option.none =>
    match v with
    | .f64 x => .ok (.f64 x)
    | _ => .error .invalidType

/-- the `bool` reader -/
def argBool (v : Value) : Except ArgErr SVal :=
  match v with
  | .bool b => .ok (.bool b)
  | _ => .error .invalidType

/-! ## `impl Serialize for Value` / `for Key` (value/mod.rs, key.rs): a `Value` given to serde -/

/-- the serializer call `impl Serialize for Key` makes -/
def keySer : Key → SVal
  | .bool b => .bool b
  | .u64 n => .int .u64 (n : Int)
  | .i64 n => .int .i64 n
  | .u128 n => .int .u128 (n : Int)
  | .i128 n => .int .i128 n
  | .str s => .str s

mutual
/-- the serializer calls `impl Serialize for Value` makes: none and undefined are `serialize_unit`,
integers keep their width, bytes go through `serialize_bytes`, a string through `serialize_str`
(its safe flag is not part of the serde data model), arrays are sequences, maps are maps -/
def valueSer : Value → SVal
  | .undef => .unit
  | .none => .unit
  | .bool b => .bool b
  | .u64 n => .int .u64 (n : Int)
  | .i64 n => .int .i64 n
  | .u128 n => .int .u128 (n : Int)
  | .i128 n => .int .i128 n
  | .f64 x => .f64 x
  | .str _ s => .str s
  | .bytes bs => .cstring bs
  | .arr xs => .seq (valueSerList xs)
  | .map es => .map (valueSerEntries es)

def valueSerList : List Value → List SVal
  | [] => []
  | v :: vs => valueSer v :: valueSerList vs

def valueSerEntries : List (Key × Value) → List (SVal × SVal)
  | [] => []
  | (k, v) :: es => (keySer k, valueSer v) :: valueSerEntries es
end

mutual
/-- what survives a conversion: undefined becomes none and a safe string a normal string -/
def plainOf : Value → Value
  | .undef => .none
  | .str _ s => .str false s
  | .arr xs => .arr (plainOfList xs)
  | .map es => .map (plainOfEntries es)
  | v => v

def plainOfList : List Value → List Value
  | [] => []
  | v :: vs => plainOf v :: plainOfList vs

def plainOfEntries : List (Key × Value) → List (Key × Value)
  | [] => []
  | (k, v) :: es => (k, plainOf v) :: plainOfEntries es
end

mutual
/-- every map in the value has pairwise different keys (`keyEq`), as any `HashMap` has -/
def KeysDistinct : Value → Prop
  | .arr xs => KeysDistinctList xs
  | .map es => (es.Pairwise (fun a b => keyEq a.1 b.1 = false)) ∧ KeysDistinctEntries es
  | _ => True

def KeysDistinctList : List Value → Prop
  | [] => True
  | v :: vs => KeysDistinct v ∧ KeysDistinctList vs

def KeysDistinctEntries : List (Key × Value) → Prop
  | [] => True
  | (_, v) :: es => KeysDistinct v ∧ KeysDistinctEntries es
end

/-! ## the family of types and values the round-trip property is about -/

/-- A type whose values may serialise to `Value::None`: `Option`, `()`, unit structs, and newtype
structs around those. Directly inside an `Option` such a payload cannot be told from `None`
(`Some(None)`, `Some(())` and `None` are all `Value::None`), which is the shape the property
excludes. -/
def noneLike : STy → Bool
  | .option _ | .unit | .unitStruct => true
  | .newtype t => noneLike t
  | _ => false

/-- the key types of the family: bool, every integer width, char, String -/
def goodKeyTy : STy → Bool
  | .bool | .int _ | .char | .string => true
  | _ => false

mutual
/-- Side conditions on the *type*: no none-like payload directly inside an `Option`; map keys are
bool / integer / char / string; field and variant names are distinct (Rust guarantees it); a
variant's payload type has the shape its kind says. -/
def InFamily : STy → Prop
  | .option t => noneLike t = false ∧ InFamily t
  | .seq t => InFamily t
  | .tuple ts => InFamilyList ts
  | .map k v => goodKeyTy k = true ∧ InFamily v
  | .struct fs => (fs.map (·.1)).Nodup ∧ InFamilyFields fs
  | .newtype t => InFamily t
  | .enum vs => (vs.map (·.1)).Nodup ∧ InFamilyVariants vs
  | _ => True

def InFamilyList : List STy → Prop
  | [] => True
  | t :: ts => InFamily t ∧ InFamilyList ts

def InFamilyFields : List (Name × STy) → Prop
  | [] => True
  | (_, t) :: fs => InFamily t ∧ InFamilyFields fs

def InFamilyVariants : List (Name × VKind × STy) → Prop
  | [] => True
  | (_, k, t) :: vs =>
    (match k, t with
      | .unit, .unit => True
      | .newtype, t => InFamily t
      | .tuple, .tuple ts => InFamilyList ts
      | .struct, .struct fs => (fs.map (·.1)).Nodup ∧ InFamilyFields fs
      | _, _ => False) ∧ InFamilyVariants vs
end

mutual
/-- `v` is a value of the Rust type `t` (integers in range, an f32 is an f32, a C string has no
NUL, map keys are distinct, struct fields are the type's fields in order, the variant exists). -/
def HasTy (fc : FloatCasts) : STy → SVal → Prop
  | .bool, .bool _ => True
  | .int t, .int t' n => t' = t ∧ t.inRange n
  | .f32, .f32 x => fc.f64to32 x = x
  | .f64, .f64 _ => True
  | .char, .char _ => True
  | .string, .str _ => True
  | .unit, .unit => True
  | .cstring, .cstring bs => (∀ b ∈ bs, b < 256) ∧ 0 ∉ bs
  | .option _, .none => True
  | .option t, .some v => HasTy fc t v
  | .seq t, .seq xs => ∀ x ∈ xs, HasTy fc t x
  | .tuple ts, .tuple xs => HasTys fc ts xs
  | .map kt vt, .map es => (∀ e ∈ es, HasTy fc kt e.1 ∧ HasTy fc vt e.2) ∧ (es.map (·.1)).Nodup
  | .struct fs, .struct xs => HasFields fc fs xs
  | .newtype t, .newtype v => HasTy fc t v
  | .unitStruct, .unitStruct => True
  | .enum vs, .variant n k p => HasVariant fc vs n k p
  | _, _ => False

def HasTys (fc : FloatCasts) : List STy → List SVal → Prop
  | [], [] => True
  | t :: ts, x :: xs => HasTy fc t x ∧ HasTys fc ts xs
  | _, _ => False

def HasFields (fc : FloatCasts) : List (Name × STy) → List (Name × SVal) → Prop
  | [], [] => True
  | (n, t) :: fs, (m, x) :: xs => n = m ∧ HasTy fc t x ∧ HasFields fc fs xs
  | _, _ => False

def HasVariant (fc : FloatCasts) : List (Name × VKind × STy) → Name → VKind → SVal → Prop
  | [], _, _, _ => False
  | (n, k, t) :: vs, m, k', p =>
    (n = m ∧ k = k' ∧ (if k = .unit then p = .unit else HasTy fc t p)) ∨ HasVariant fc vs m k' p
end

end Tera.Serde
