/-
Model of `Value::format` and `format_map` (tera/src/value/mod.rs), `Key::format` (value/key.rs):
the text a value is rendered as.

Two std functions are involved:
* `f64`'s `{:?}` (shortest round-trip digits) is a PARAMETER (`fmtF64`), instantiated by the driver
  with an exact implementation (Driver/C03.lean) and compared with the engine by the harness;
* `str`'s `{:?}` (used for strings inside arrays and maps) is modelled for the characters the
  harness generates: `"` `\` newline, tab, CR, NUL are backslash escapes, other ASCII and C1
  control characters, U+00A0, U+00AD, the combining marks U+0300–U+036F and the listed space
  separators / format characters (`debugEscapedCp`) are `\u{..}` escapes, everything else is printed
  as is (Rust escapes every code point `is_printable` refuses and every grapheme extender: the full
  table is not modelled; the harness generates none outside `debugEscapedCp`);
* `String::from_utf8_lossy` (printing bytes) is modelled in full (`lossyDecode`).
-/
import TeraModel.Model.EvalPrims
namespace Tera

def natToDigits (n : Nat) : List Char := (Nat.toDigits 10 n)

def intToChars (i : Int) : List Char :=
  if i < 0 then '-' :: natToDigits i.natAbs else natToDigits i.natAbs

def hexLower (n : Nat) : List Char := Nat.toDigits 16 n

/-- Code points `impl Debug for str` writes as `\u{..}`: `char::escape_debug` escapes what
`core::unicode::printable::is_printable` refuses and the grapheme extenders.  Exact below U+0378
(C0 / C1 controls, U+00A0 NO-BREAK SPACE, U+00AD SOFT HYPHEN, the combining marks U+0300–U+036F);
beyond that only the space separators and format characters the generators can produce are
listed (U+1680, U+2000–U+200F, U+2028–U+202F, U+205F–U+206F, U+3000, U+FEFF) — measured on the
toolchain's std, not extracted from it. -/
def debugEscapedCp (n : Nat) : Bool :=
  n < 0x20 || (0x7f ≤ n && n ≤ 0xa0) || n == 0xad || (0x300 ≤ n && n ≤ 0x36f) || n == 0x1680 ||
  (0x2000 ≤ n && n ≤ 0x200f) || (0x2028 ≤ n && n ≤ 0x202f) || (0x205f ≤ n && n ≤ 0x206f) ||
  n == 0x3000 || n == 0xfeff

/-- `impl Debug for str` on the generated alphabet. -/
def debugStr (s : List Char) : List Char :=
  let esc (c : Char) : List Char :=
    if c == '"' then ['\\', '"']
    else if c == '\\' then ['\\', '\\']
    else if c == '\n' then ['\\', 'n']
    else if c == '\t' then ['\\', 't']
    else if c == '\r' then ['\\', 'r']
    else if c.toNat == 0 then ['\\', '0']
    else if debugEscapedCp c.toNat then ['\\', 'u', '{'] ++ hexLower c.toNat ++ ['}']
    else [c]
  ['"'] ++ s.flatMap esc ++ ['"']

/-! ### `String::from_utf8_lossy` -/

def isCont (b : Option Nat) : Bool :=
  match b with
  | some x => x / 64 == 2
  | none => false

def inRange (b : Option Nat) (lo hi : Nat) : Bool :=
  match b with
  | some x => lo ≤ x && x ≤ hi
  | none => false

/-- One step of `Utf8Chunks`: given the lead byte and the rest, the number of bytes consumed
after the lead byte and whether they form a valid scalar value. -/
def utf8Step (b : Nat) (rest : List Nat) : Nat × Bool :=
  let g (i : Nat) : Option Nat := rest[i]?
  if b < 0x80 then (0, true)
  else if 0xC2 ≤ b && b ≤ 0xDF then
    if isCont (g 0) then (1, true) else (0, false)
  else if 0xE0 ≤ b && b ≤ 0xEF then
    let ok1 := (b == 0xE0 && inRange (g 0) 0xA0 0xBF) || (0xE1 ≤ b && b ≤ 0xEC && inRange (g 0) 0x80 0xBF)
      || (b == 0xED && inRange (g 0) 0x80 0x9F) || (0xEE ≤ b && b ≤ 0xEF && inRange (g 0) 0x80 0xBF)
    if !ok1 then (0, false)
    else if !isCont (g 1) then (1, false)
    else (2, true)
  else if 0xF0 ≤ b && b ≤ 0xF4 then
    let ok1 := (b == 0xF0 && inRange (g 0) 0x90 0xBF) || (0xF1 ≤ b && b ≤ 0xF3 && inRange (g 0) 0x80 0xBF)
      || (b == 0xF4 && inRange (g 0) 0x80 0x8F)
    if !ok1 then (0, false)
    else if !isCont (g 1) then (1, false)
    else if !isCont (g 2) then (2, false)
    else (3, true)
  else (0, false)

def decodeScalar (b : Nat) (cs : List Nat) : Char :=
  match cs with
  | [] => Char.ofNat b
  | [c1] => Char.ofNat ((b % 0x20) * 64 + c1 % 64)
  | [c1, c2] => Char.ofNat ((b % 0x10) * 4096 + (c1 % 64) * 64 + c2 % 64)
  | c1 :: c2 :: c3 :: _ => Char.ofNat ((b % 8) * 262144 + (c1 % 64) * 4096 + (c2 % 64) * 64 + c3 % 64)

/-- `String::from_utf8_lossy`: every maximal invalid sequence becomes one U+FFFD. -/
def lossyDecode (fuel : Nat) (bs : List Nat) : List Char :=
  match fuel, bs with
  | 0, _ => []
  | _, [] => []
  | fuel + 1, b :: rest =>
    let (n, ok) := utf8Step b rest
    let c := if ok then decodeScalar b (rest.take n) else Char.ofNat 0xFFFD
    c :: lossyDecode fuel (rest.drop n)

/-- `Key::format`. -/
def Key.format : Key → List Char
  | .bool b => if b then "true".toList else "false".toList
  | .u64 n => natToDigits n
  | .i64 n => intToChars n
  | .u128 n => natToDigits n
  | .i128 n => intToChars n
  | .str s => s

/-- `format_map` once the values are printed: entries in key order, string keys with `{:?}`. -/
def joinEntries : List (Key × List Char) → Bool → List Char
  | [], _ => []
  | (k, t) :: rest, isFirst =>
    (if isFirst then [] else [',', ' '])
      ++ (match k with | .str s => debugStr s | k => Key.format k)
      ++ [':', ' '] ++ t ++ joinEntries rest false

mutual
/-- `Value::format`. -/
def Value.format (fmtF64 : F64 → List Char) : Value → List Char
  | .none => []
  | .undef => []
  | .bool b => if b then "true".toList else "false".toList
  | .bytes bs => lossyDecode (bs.length) bs
  | .str _ s => s
  | .arr xs => ['['] ++ formatElems fmtF64 xs true ++ [']']
  | .map es => ['{'] ++ joinEntries (sortByKey (formatValues fmtF64 es)) true ++ ['}']
  | .f64 x => fmtF64 x
  | .u64 n => natToDigits n
  | .i64 n => intToChars n
  | .u128 n => natToDigits n
  | .i128 n => intToChars n

/-- Elements of an array: strings are printed with `{:?}`. -/
def formatElems (fmtF64 : F64 → List Char) : List Value → Bool → List Char
  | [], _ => []
  | .str _ s :: rest, isFirst =>
    (if isFirst then [] else [',', ' ']) ++ debugStr s ++ formatElems fmtF64 rest false
  | v :: rest, isFirst =>
    (if isFirst then [] else [',', ' ']) ++ Value.format fmtF64 v ++ formatElems fmtF64 rest false

/-- The printed value of every entry of a map (strings with `{:?}`). -/
def formatValues (fmtF64 : F64 → List Char) : List (Key × Value) → List (Key × List Char)
  | [] => []
  | (k, .str _ s) :: rest => (k, debugStr s) :: formatValues fmtF64 rest
  | (k, v) :: rest => (k, Value.format fmtF64 v) :: formatValues fmtF64 rest
end

end Tera
