/-
IEEE-754 binary64 arithmetic on the exact dyadic model `Tera.F64`: `+ - * /`, C `fmod` (Rust's `%` on
f64) and the two Euclidean operations of Rust std that tera/src/value/number.rs calls
(`f64::rem_euclid`, `f64::div_euclid`).  With this file the float arithmetic of number.rs is
inside the model: `softOps` instantiates `FloatOps` without the hardware (only `powf`, which is
libm, stays a parameter).

Every operation computes the exact rational result on integers and rounds it once with
`roundDyadic` (round to nearest, ties to even, 53-bit significand, gradual underflow, overflow to
infinity).  All results are in the canonical form that `F64.ofBits` produces:
`fin neg m e` with `2^52 ≤ m < 2^53`, `-1074 ≤ e ≤ 971` (normal) or `m < 2^52`, `e = -1074`
(subnormal, zero).  NaN is a single value (payload and sign of NaN are canonicalised by the
harness).

Mirrors: the `(Number::Float(a), Number::Float(b))` arms of `math!`, `rem`, `div`, `floor_div` in
tera/src/value/number.rs, i.e. the hardware `a + b`, `a - b`, `a * b`, `a / b` and
core::f64 `rem_euclid` / `div_euclid` (library/std/src/num/f64.rs):
  rem_euclid: `let r = self % rhs; if r < 0.0 { r + rhs.abs() } else { r }`
  div_euclid: `let q = (self / rhs).trunc();
               if self % rhs < 0.0 { return if rhs > 0.0 { q - 1.0 } else { q + 1.0 }; } q`
-/
import TeraModel.Model.Number
namespace Tera
namespace SoftFloat
open F64

/-- `+0.0` / `-0.0` in canonical form. -/
def zero (neg : Bool) : F64 := .fin neg 0 (-1074)

/-- `1.0`. -/
def one : F64 := .fin false (2 ^ 52) (-52)

/-- `N / D` rounded to the nearest integer, ties to the even one (`D > 0`). -/
def rneDiv (N D : Nat) : Nat :=
  let q := N / D
  let r := N % D
  if 2 * r > D || (2 * r == D && q % 2 == 1) then q + 1 else q

/-- The binary64 value nearest to the exact rational `± num / den` (ties to even).

Work in units of `2^-1074` (the spacing of the subnormals): `x = N / den` with
`N = num * 2^1074`.  `k` is the number of low bits of `⌊x⌋` that do not fit in a 53-bit
significand (0 in the subnormal range: there the spacing stays `2^-1074`); the significand is
`x / 2^k` rounded to an integer; a carry to `2^53` moves to the next binade; an exponent above
971 (`k > 2045`) is an overflow to infinity. -/
def roundDyadic (neg : Bool) (num den : Nat) : F64 :=
  if den = 0 then .nan
  else
    let N := num * 2 ^ 1074
    let k := bitLen (N / den) - 53
    let m := rneDiv N (den * 2 ^ k)
    let k' := if m = 2 ^ 53 then k + 1 else k
    let m' := if m = 2 ^ 53 then 2 ^ 52 else m
    if k' > 2045 then .inf neg else .fin neg m' ((k' : Int) - 1074)

/-- Correctly rounded `± n * 2^e`. -/
def roundScaled (neg : Bool) (n : Nat) (e : Int) : F64 :=
  roundDyadic neg (n * 2 ^ e.toNat) (2 ^ (-e).toNat)

/-- `+1` / `-1`. -/
def sgn (neg : Bool) : Int := if neg then -1 else 1

/-- The sign bit (false for NaN, whose sign is not modelled). -/
def signBit : F64 → Bool
  | .nan => false
  | .inf s => s
  | .fin s _ _ => s

/-- Unary minus (flips the sign bit; NaN stays NaN). -/
def neg : F64 → F64
  | .nan => .nan
  | .inf s => .inf (!s)
  | .fin s m e => .fin (!s) m e

/-- `f64::abs`. -/
def abs : F64 → F64
  | .nan => .nan
  | .inf _ => .inf false
  | .fin _ m e => .fin false m e

/-- IEEE addition. -/
def add : F64 → F64 → F64
  | .nan, _ => .nan
  | _, .nan => .nan
  | .inf s, .inf t => if s == t then .inf s else .nan
  | .inf s, .fin .. => .inf s
  | .fin .., .inf t => .inf t
  | .fin sa ma ea, .fin sb mb eb =>
    -- align to the smaller exponent; the sum is then an exact integer multiple of 2^e
    let e := min ea eb
    let S : Int := sgn sa * ((ma * 2 ^ (ea - e).toNat : Nat) : Int)
                 + sgn sb * ((mb * 2 ^ (eb - e).toNat : Nat) : Int)
    -- an exact zero sum is +0 under round-to-nearest unless both operands are negative (zeros)
    if S = 0 then zero (sa && sb) else roundScaled (decide (S < 0)) S.natAbs e

/-- IEEE subtraction: `a - b = a + (-b)` (also for the sign of zero results). -/
def sub (a b : F64) : F64 := add a (neg b)

/-- IEEE multiplication. -/
def mul : F64 → F64 → F64
  | .nan, _ => .nan
  | _, .nan => .nan
  | .inf s, .inf t => .inf (s != t)
  | .inf s, .fin t m _ => if m = 0 then .nan else .inf (s != t)
  | .fin s m _, .inf t => if m = 0 then .nan else .inf (s != t)
  | .fin sa ma ea, .fin sb mb eb => roundScaled (sa != sb) (ma * mb) (ea + eb)

/-- IEEE division. -/
def div : F64 → F64 → F64
  | .nan, _ => .nan
  | _, .nan => .nan
  | .inf _, .inf _ => .nan
  | .inf s, .fin t _ _ => .inf (s != t)
  | .fin s _ _, .inf t => zero (s != t)
  | .fin sa ma ea, .fin sb mb eb =>
    if mb = 0 then (if ma = 0 then .nan else .inf (sa != sb))
    else roundDyadic (sa != sb) (ma * 2 ^ (ea - eb).toNat) (mb * 2 ^ (eb - ea).toNat)

/-- `f64::trunc`: round toward zero to an integer (keeps the sign, also of a zero result). -/
def trunc : F64 → F64
  | .fin s m e => roundScaled s (m * 2 ^ e.toNat / 2 ^ (-e).toNat) 0
  | o => o

/-- C `fmod` = Rust `%` on f64: `a - trunc(a/b) * b` computed exactly, with the sign of `a`
(also when the result is zero). No rounding happens (`fmod_exact`). -/
def fmod : F64 → F64 → F64
  | .fin sa ma ea, .fin _ mb eb =>
    if mb = 0 then .nan
    else
      let e := min ea eb
      let X := ma * 2 ^ (ea - e).toNat
      let Y := mb * 2 ^ (eb - e).toNat
      roundScaled sa (X % Y) e
  | .fin sa ma ea, .inf _ => .fin sa ma ea
  | _, _ => .nan

/-- `f64::rem_euclid` (std): `let r = self % rhs; if r < 0.0 { r + rhs.abs() } else { r }`. -/
def remEuclid (a b : F64) : F64 :=
  let r := fmod a b
  if F64.lt r ZERO_F then add r (abs b) else r

/-- `f64::div_euclid` (std): `let q = (self / rhs).trunc();
if self % rhs < 0.0 { return if rhs > 0.0 { q - 1.0 } else { q + 1.0 }; } q`. -/
def divEuclid (a b : F64) : F64 :=
  let q := trunc (div a b)
  if F64.lt (fmod a b) ZERO_F then
    (if F64.gt b ZERO_F then sub q one else add q one)
  else q

/-- The float operations of number.rs, all defined by the model except `powf` (libm). -/
def softOps (powf : F64 → F64 → F64) : FloatOps where
  add := add
  sub := sub
  mul := mul
  div := div
  remEuclid := remEuclid
  divEuclid := divEuclid
  powf := powf
  neg := neg

end SoftFloat
end Tera
