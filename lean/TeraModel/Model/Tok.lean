/-
The tokens the parser consumes: `lexer::Token` of tera/src/parsing/lexer.rs after the whitespace
filter (so no `Comment`, no `RawContent`), without spans, plus `error` for an `Err(_)` item of the
token iterator (the lexer stops after its first error).

`Token::String` (unescaped, owned) and `Token::Str` (borrowed) are the same token for the parser:
both are `str`.

Wire form (one whitespace-free word per token, produced by `tera::verif_hooks::tokens_wire`):
  content:<hex> vs0|vs1 ve0|ve1 ts0|ts1 te0|te1 id:<hex> str:<hex> int:<dec> float:<16 hex bits>
  bool0|bool1 ERR and the `Debug` names of the punctuation tokens (PLUS, MINUS, …).
-/
import TeraModel.Model.Wire
namespace Tera

inductive Tok where
  | content (s : String)
  | variableStart (ws : Bool)
  | variableEnd (ws : Bool)
  | tagStart (ws : Bool)
  | tagEnd (ws : Bool)
  | ident (s : String)
  | str (s : String)
  | integer (n : Int)
  | float (x : F64)
  | bool (b : Bool)
  -- math
  | mul | div | floorDiv | mod | plus | minus | power
  -- logic
  | lessThan | closingTagStart | greaterThan | lessThanOrEqual | greaterThanOrEqual | equal
  | notEqual
  -- specific to Tera
  | tilde | pipe | assign
  -- rest
  | dot | questionMarkDot | questionMarkLeftBracket | comma | colon | bang
  | leftBracket | rightBracket | leftParen | rightParen | leftBrace | rightBrace | spread
  /-- an `Err(_)` produced by the lexer -/
  | error
  deriving Repr, DecidableEq, Inhabited

namespace Tok

/-- punctuation tokens with the `Debug` spelling of lexer.rs -/
def punct : List (String × Tok) :=
  [("PLUS", plus), ("MINUS", minus), ("MUL", mul), ("DIV", div), ("FLOORDIV", floorDiv),
   ("POWER", power), ("MOD", mod), ("BANG", bang), ("DOT", dot),
   ("QUESTION_MARK_DOT", questionMarkDot), ("QUESTION_MARK_LEFT_BRACKET", questionMarkLeftBracket),
   ("COMMA", comma), ("COLON", colon), ("TILDE", tilde), ("ASSIGN", assign), ("PIPE", pipe),
   ("EQ", equal), ("NE", notEqual), ("GT", greaterThan), ("GTE", greaterThanOrEqual),
   ("LT", lessThan), ("CLOSING_TAG_START", closingTagStart), ("LTE", lessThanOrEqual),
   ("LEFT_BRACKET", leftBracket), ("RIGHT_BRACKET", rightBracket), ("LEFT_PAREN", leftParen),
   ("RIGHT_PAREN", rightParen), ("LEFT_BRACE", leftBrace), ("RIGHT_BRACE", rightBrace),
   ("SPREAD", spread), ("ERR", error)]

def strOfHex (h : String) : Option String := (Wire.strOfHex h).map String.ofList

def ofWire (w : String) : Option Tok :=
  match punct.find? (fun p => p.1 == w) with
  | some (_, t) => some t
  | none =>
    if w == "vs0" then some (variableStart false) else if w == "vs1" then some (variableStart true)
    else if w == "ve0" then some (variableEnd false) else if w == "ve1" then some (variableEnd true)
    else if w == "ts0" then some (tagStart false) else if w == "ts1" then some (tagStart true)
    else if w == "te0" then some (tagEnd false) else if w == "te1" then some (tagEnd true)
    else if w == "bool0" then some (bool false) else if w == "bool1" then some (bool true)
    else if let some d := Wire.afterPrefix "content:" w then (strOfHex d).map content
    else if let some d := Wire.afterPrefix "id:" w then (strOfHex d).map ident
    else if let some d := Wire.afterPrefix "str:" w then (strOfHex d).map str
    else if let some d := Wire.afterPrefix "int:" w then d.toInt?.map integer
    else if let some d := Wire.afterPrefix "float:" w then
      (Wire.hexNat d.toList).map (fun n => float (F64.ofBits n))
    else none

def ofWireList : List String → Option (List Tok)
  | [] => some []
  | w :: ws => do
    let t ← ofWire w
    let ts ← ofWireList ws
    pure (t :: ts)

end Tok
end Tera
