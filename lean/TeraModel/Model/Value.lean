/-
The 12-kind `tera::Value` (tera/src/value/mod.rs `ValueInner`) and `Key` (value/key.rs).

Conventions (shared by every model file):
* integers are unbounded `Nat`/`Int` with explicit range predicates (`Value.WF`);
* strings are `List Char`; the `safe` flag is `StringKind::Safe`;
* maps are association lists (iteration order is whatever order the list has; the harness sends
  entries sorted by key, which is also the order the engine iterates in since the F8 fix);
* bytes are `List Nat` (each < 256).
-/
import TeraModel.Model.F64
namespace Tera

def I128_MIN : Int := -(2:Int)^127
def I128_MAX : Int := (2:Int)^127 - 1
def U128_MAX : Nat := 2^128 - 1
def I64_MIN : Int := -(2:Int)^63
def I64_MAX : Int := (2:Int)^63 - 1
def U64_MAX : Nat := 2^64 - 1

def inI128 (n : Int) : Prop := I128_MIN ≤ n ∧ n ≤ I128_MAX
def inU128 (n : Int) : Prop := 0 ≤ n ∧ n ≤ (U128_MAX : Int)
def inI64 (n : Int) : Prop := I64_MIN ≤ n ∧ n ≤ I64_MAX
def inU64 (n : Int) : Prop := 0 ≤ n ∧ n ≤ (U64_MAX : Int)
instance (n : Int) : Decidable (inI128 n) := by unfold inI128; infer_instance
instance (n : Int) : Decidable (inU128 n) := by unfold inU128; infer_instance
instance (n : Int) : Decidable (inI64 n) := by unfold inI64; infer_instance
instance (n : Int) : Decidable (inU64 n) := by unfold inU64; infer_instance

inductive Key where
  | bool (b : Bool)
  | u64 (n : Nat)
  | i64 (n : Int)
  | u128 (n : Nat)
  | i128 (n : Int)
  | str (s : List Char)
  deriving Repr, DecidableEq, Inhabited

inductive Value where
  | undef
  | none
  | bool (b : Bool)
  | u64 (n : Nat)
  | i64 (n : Int)
  | u128 (n : Nat)
  | i128 (n : Int)
  | f64 (x : F64)
  | str (safe : Bool) (s : List Char)
  | arr (xs : List Value)
  | map (es : List (Key × Value))
  | bytes (bs : List Nat)
  deriving Repr, Inhabited

namespace Value

/-- Range well-formedness of the scalar payload (what the Rust types guarantee). -/
def scalarWF : Value → Prop
  | .u64 n => n ≤ U64_MAX
  | .i64 n => inI64 n
  | .u128 n => n ≤ U128_MAX
  | .i128 n => inI128 n
  | _ => True

def isNumber : Value → Bool
  | .u64 _ | .i64 _ | .u128 _ | .i128 _ | .f64 _ => true
  | _ => false

def isInteger : Value → Bool
  | .u64 _ | .i64 _ | .u128 _ | .i128 _ => true
  | _ => false

/-- The exact integer an integer-kind value denotes. -/
def intVal : Value → Option Int
  | .u64 n => some ((n : Int))
  | .i64 n => some n
  | .u128 n => some ((n : Int))
  | .i128 n => some n
  | _ => Option.none

/-- `Value::as_i128`. -/
def asI128 (v : Value) : Option Int :=
  match v.intVal with
  | some n => if inI128 n then some n else Option.none
  | Option.none => Option.none

/-- `Value::as_u128`. -/
def asU128 (v : Value) : Option Int :=
  match v.intVal with
  | some n => if inU128 n then some n else Option.none
  | Option.none => Option.none

/-- `Value::name`. -/
def name : Value → String
  | .undef => "undefined" | .none => "none" | .bool _ => "bool" | .u64 _ => "u64"
  | .i64 _ => "i64" | .f64 _ => "f64" | .u128 _ => "u128" | .i128 _ => "i128"
  | .arr _ => "array" | .bytes _ => "bytes" | .str .. => "string" | .map _ => "map/struct"

end Value
end Tera
