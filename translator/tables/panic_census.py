"""C06 / C07: census of the *syntactic* panic sites of the engine proper, outside tests and outside
the verif hooks: every `.expect(…)`, `.unwrap()`, `unreachable!`, `panic!`, `unimplemented!`,
`todo!`, `assert!`/`assert_eq!`/`assert_ne!` (not `debug_assert*`), and every index expression
`name[…]` / `name.field[…]` (slices `[a..b]` included), in

    add-time code   : tera/src/parsing/{lexer,parser,compiler,instructions,ast}.rs, template.rs, tera.rs
    render-time code: tera/src/vm/{interpreter,state,stack,for_loop}.rs

Output: Generated/PanicCensus.lean

    Tera.Generated.panicCensusAdd    : List (String × String × String × String × Nat)
    Tera.Generated.panicCensusRender : List (String × String × String × String × Nat)

each entry = (file, enclosing fn or macro, kind, normalised text, number of occurrences in that fn),
sorted.  No line numbers: moving code does not change the census, adding / removing / rewording a
site does.  Props/PanicCensus.lean holds the hand-written account of every entry (which model
outcome represents it, or why it cannot fire) and proves the two lists equal: a site added to the
Rust that the models do not know about breaks that theorem.

What is NOT in the census (stated in DESIGN.md): arithmetic overflow (`+`/`-`/`*` on usize — the
harness profile has overflow-checks on), slicing through method calls (`get(..)` is total),
`RefCell` borrows, allocation failure, stack overflow, panics inside dependencies.
"""
import os
import re
import sys

sys.path.insert(0, os.path.dirname(os.path.abspath(__file__)))
from _util import read  # noqa: E402

OUTPUTS = ["PanicCensus.lean"]

ADD_FILES = ["parsing/lexer.rs", "parsing/parser.rs", "parsing/compiler.rs", "parsing/instructions.rs",
             "parsing/ast.rs", "parsing/mod.rs", "template.rs", "tera.rs", "delimiters.rs"]
RENDER_FILES = ["vm/interpreter.rs", "vm/state.rs", "vm/stack.rs", "vm/for_loop.rs", "vm/mod.rs",
                "context.rs", "components.rs", "reporting.rs", "errors.rs", "utils.rs"]


def _match_brace(text, i):
    """index just after the brace block starting at text[i] == '{' (strings/chars/comments were blanked)"""
    depth = 0
    for j in range(i, len(text)):
        c = text[j]
        if c == "{":
            depth += 1
        elif c == "}":
            depth -= 1
            if depth == 0:
                return j + 1
    raise ValueError("unbalanced braces")


def _blank_noncode(src):
    """Replace comments by spaces; keep string literal CONTENT (needed for expect messages) but
    neutralise braces/brackets inside strings and chars so brace matching works."""
    out = []
    i, n = 0, len(src)
    while i < n:
        c = src[i]
        if src.startswith("//", i):
            j = src.find("\n", i)
            j = n if j < 0 else j
            out.append(" " * (j - i))
            i = j
        elif src.startswith("/*", i):
            j = src.find("*/", i + 2)
            j = n if j < 0 else j + 2
            out.append(re.sub(r"[^\n]", " ", src[i:j]))
            i = j
        elif c == '"' or (c == "r" and re.match(r'r#*"', src[i:])) or (c == "b" and src.startswith('b"', i)):
            m = re.match(r'b?r(#*)"', src[i:])
            if m:
                hashes = m.group(1)
                end = src.find('"' + hashes, i + len(m.group(0)))
                if end < 0:
                    raise ValueError("unterminated raw string")
                j = end + 1 + len(hashes)
            else:
                j = i + (2 if c == "b" else 1)
                while j < n and src[j] != '"':
                    j += 2 if src[j] == "\\" else 1
                j += 1
            lit = src[i:j]
            out.append(lit.translate(str.maketrans("{}[]", "\x01\x02\x03\x04")))
            i = j
        elif c == "'" :
            m = re.match(r"'(\\.[^']*|[^'\\])'", src[i:])
            if m:  # char literal (not a lifetime)
                out.append(m.group(0).translate(str.maketrans("{}[]", "\x01\x02\x03\x04")))
                i += len(m.group(0))
            else:
                out.append(c)
                i += 1
        else:
            out.append(c)
            i += 1
    return "".join(out)


def _strip_items(text, attr_regex):
    """remove every item (fn / mod / impl / use / statement block) that follows an attribute
    matching attr_regex: up to the end of its brace block, or to the `;` when it has none"""
    while True:
        m = re.search(attr_regex, text)
        if not m:
            return text
        i = m.end()
        # skip further attributes
        while True:
            k = re.match(r"\s*#\[[^\]]*\]", text[i:])
            if not k:
                break
            i += k.end()
        brace = text.find("{", i)
        semi = text.find(";", i)
        if brace >= 0 and (semi < 0 or brace < semi):
            end = _match_brace(text, brace)
        elif semi >= 0:
            end = semi + 1
        else:
            raise ValueError("attribute without item")
        text = text[:m.start()] + re.sub(r"[^\n]", " ", text[m.start():end]) + text[end:]


def _unblank(s):
    return s.translate(str.maketrans("\x01\x02\x03\x04", "{}[]"))


def _norm(s):
    return _unblank(" ".join(s.split()))


def _enclosing(text, pos, headers):
    name = "<top>"
    for p, n in headers:
        if p <= pos:
            name = n
        else:
            break
    return name


SITE_RES = [
    ("expect", re.compile(r"\.\s*expect\s*\(\s*(\"(?:[^\"\\]|\\.)*\")\s*\)")),
    ("unwrap", re.compile(r"\.\s*unwrap\s*\(\s*\)")),
    ("macro", re.compile(r"\b(unreachable|panic|unimplemented|todo|assert|assert_eq|assert_ne)!\s*\(")),
]
INDEX_RE = re.compile(r"(?<![#\w!.$])(\$?[A-Za-z_][\w]*(?:\s*\.\s*[A-Za-z_0-9]\w*|\s*\(\s*\))*)\s*\[")


def _receiver_before(text, pos):
    """the method chain `.unwrap()` is applied to: scan backwards from `pos` over identifiers,
    `.`, `::`, `&`, `*`, `$`, `?`, whitespace between chain links and balanced (...) / [...]
    groups; whitespace-normalised"""
    i = pos
    while i > 0:
        c = text[i - 1]
        if c in ")]":
            close, open_ = c, "(" if c == ")" else "["
            depth = 0
            while i > 0:
                i -= 1
                depth += text[i] == close
                depth -= text[i] == open_
                if depth == 0:
                    break
        elif c.isalnum() or c in "_.:&*$?!\x01\x02\x03\x04":
            i -= 1
        elif c.isspace():
            # whitespace is part of the chain only when the next non-space char continues a chain
            j = i - 1
            while j > 0 and text[j - 1].isspace():
                j -= 1
            k = pos if False else i
            nxt = text[k:k + 1]
            if nxt == "." and j > 0 and (text[j - 1].isalnum() or text[j - 1] in "_)]?"):
                i = j
            else:
                break
        else:
            break
    return _norm(text[i:pos]).replace(" ", "")


def census(repo, files):
    counts = {}
    for rel in files:
        src = read(repo, "tera/src/" + rel)
        text = _blank_noncode(src)
        text = _strip_items(text, r"#\[cfg\(\s*test\s*\)\]")
        text = _strip_items(text, r"#\[cfg\(\s*feature\s*=\s*\"verif_hooks\"\s*\)\]")
        text = _strip_items(text, r"#\[cfg\(\s*all\(\s*test[^\]]*\]")
        depth_at = []
        d = 0
        for ch in text:
            depth_at.append(d)
            d += ch == "{"
            d -= ch == "}"
        headers = [(m.start(), m.group(2)) for m in
                   re.finditer(r"\b(fn|macro_rules!)\s+([A-Za-z_]\w*)", text)
                   if m.group(1) == "fn" or depth_at[m.start()] == 0]
        for kind, rx in SITE_RES:
            for m in rx.finditer(text):
                fn = _enclosing(text, m.start(), headers)
                if kind == "expect":
                    txt = _unblank(m.group(1))
                elif kind == "unwrap":
                    txt = _receiver_before(text, m.start())
                else:
                    close = text.find(")", m.end())
                    txt = m.group(1) + "!(" + _norm(text[m.end():close])[:60] + ")"
                key = (rel, fn, kind, txt)
                counts[key] = counts.get(key, 0) + 1
        for m in INDEX_RE.finditer(text):
            recv = _norm(m.group(1))
            if recv in ("vec", "matches", "format", "println", "write", "writeln"):
                continue
            # the bracket must close on a non-empty index and be an expression, not a type `[u8]`,
            # an array literal or an attribute
            j = m.end()
            depth = 1
            while j < len(text) and depth:
                depth += text[j] == "["
                depth -= text[j] == "]"
                j += 1
            inner = _norm(text[m.end():j - 1])
            if inner == "" or re.fullmatch(r"u8|char|bool|Value|String|&str|\w+;\s*\w+", inner):
                continue
            before = text[max(0, m.start() - 2):m.start()]
            if before.endswith(":") or before.endswith("<"):  # a type position
                continue
            fn = _enclosing(text, m.start(), headers)
            key = (rel, fn, "index", recv.replace(" ", "") + "[" + inner + "]")
            counts[key] = counts.get(key, 0) + 1
    return sorted((k + (v,)) for k, v in counts.items())


def _lean_str(s):
    return '"' + s.replace("\\", "\\\\").replace('"', '\\"') + '"'


def _emit(name, rows):
    lines = [f"def {name} : List (String × String × String × String × Nat) := ["]
    body = []
    for f, fn, kind, txt, n in rows:
        body.append(f"  ({_lean_str(f)}, {_lean_str(fn)}, {_lean_str(kind)}, {_lean_str(txt)}, {n})")
    lines.append(",\n".join(body))
    lines.append("]")
    return "\n".join(lines)


def generate(repo):
    add = census(repo, ADD_FILES)
    ren = census(repo, RENDER_FILES)
    if len(ren) < 10 or len(add) < 10:
        raise ValueError(f"census implausibly small: add={len(add)} render={len(ren)}")
    out = ["/- GENERATED by translator/tables/panic_census.py from tera/src — do not edit. -/",
           "namespace Tera.Generated", "",
           _emit("panicCensusAdd", add), "",
           _emit("panicCensusRender", ren), "",
           "end Tera.Generated", ""]
    return {"PanicCensus.lean": "\n".join(out)}
