"""C06 / C07: census of the *syntactic* panic sites of the engine proper, outside tests and outside
the verif hooks:

    unwrap   every `.unwrap()` AND every `.expect(…)`: one kind      text = the RECEIVER, i.e. the
             method chain the call is applied to, whitespace removed (`state.chunk`,
             `self.values.pop()`, `chunk.get_span_at(current_ip,k+1)`); the `expect` message is
             NOT part of the key, so unwrap ↔ expect and rewording a message change nothing
    macro    `unreachable!` `panic!` `unimplemented!` `todo!` `assert!` `assert_eq!` `assert_ne!`
             (not `debug_assert*`)                                   text = macro!(first 60 chars)
    index    every index / slice expression `name[…]`, `a.b.c[…]`, `f()[…]`, `f(x)[…]`, `(e)[…]`,
             `m[i][j]` (ranges `[a..b]` included)                    text = receiver[index]
    method   calls of std methods that panic on a bad argument and whose name is unambiguous
             (PANICKING_METHODS: `windows`, `split_at`, `drain`, `swap_remove`, `step_by`, …)
                                                                     text = method(arguments)
    unsafe_block  every `unsafe { … }` block / `unsafe fn` / `unsafe impl`
                                                                     text = the block without the
                                                                     keyword (70 chars)

in

    add-time code   : tera/src/parsing/{lexer,parser,compiler,instructions,ast,mod}.rs, template.rs,
                      tera.rs, delimiters.rs
    render-time code: tera/src/vm/{interpreter,state,stack,for_loop,mod}.rs, context.rs,
                      components.rs, reporting.rs, errors.rs, utils.rs
    values/built-ins: tera/src/value/*.rs, args.rs, filters.rs, functions.rs, tests.rs, globbing.rs,
                      lib.rs — and any source file of the crate that is in none of the lists (a file
                      added later); `verif_hooks.rs` and `snapshot_tests/` are not read

Output: Generated/PanicCensus.lean

    Tera.Generated.panicCensusAdd      : List (String × String × String × String × Nat)
    Tera.Generated.panicCensusRender   : List (String × String × String × String × Nat)
    Tera.Generated.panicCensusBuiltins : List (String × String × String × String × Nat)

each entry = (file, enclosing fn or top-level macro, kind, normalised text, number of occurrences in
that fn), sorted.  The enclosing fn is the innermost `fn` item whose brace block contains the site
(macros defined inside a fn count as that fn).  No line numbers: moving code does not change the
census, adding / removing / rewording a site does.  Props/PanicCensus{Add,Render,Builtins}.lean hold
the hand-written account of every entry (which model outcome represents it and which theorem
excludes it, or why it cannot fire) and prove `coversF census account = true` (Model/PanicAccount.lean):
THE KEY IS (file, kind, text) — for every key the census counts, summed over all functions of the
file, at most as many occurrences as the account has rows for.  The fn field is informative only.
Removing a site, moving code (also between functions of a file: extracting / inlining a helper),
editing comments, reformatting, unwrap ↔ expect and rewording an `expect` message keep the theorem;
a site ADDED to the Rust that the account does not know (a new text — for unwrap / expect a new
receiver —, a new kind of site in a file, one more occurrence of a known text in the file) breaks it.

What is NOT in the census (stated in DESIGN.md and in the `trusted` lines of props.d/C06.json and
C07.json): arithmetic overflow / underflow / division (`+ - * / %` on integers, `next_power_of_two`:
the harness profile has overflow-checks on), `as` casts, `Vec::remove` / `Vec::insert` /
`String::truncate` / `String::remove` and other panicking methods whose name also exists on maps,
`RefCell` / lock borrows, allocation failure and capacity overflow (`with_capacity`, `repeat`,
`push`), stack overflow, `slice::sort*` with a non-total order, panics inside `Display` / `Write`
impls called through `format!` / `write!`, panics inside dependencies and inside user-supplied
filters / functions / tests / escape functions / `AsRef<str>` / `Serialize` impls, code behind
`#[cfg(test)]` and the `verif_hooks` feature, macro-generated code of other crates.
"""
import os
import re
import sys

sys.path.insert(0, os.path.dirname(os.path.abspath(__file__)))
from _util import read  # noqa: E402

OUTPUTS = ["PanicCensus.lean"]

ADD_FILES = ["parsing/lexer.rs", "parsing/parser.rs", "parsing/compiler.rs", "parsing/instructions.rs",
             "parsing/ast.rs", "parsing/mod.rs", "template.rs", "tera.rs", "delimiters.rs"]
RENDER_FILES = ["vm/interpreter.rs", "vm/state.rs", "vm/stack.rs", "vm/for_loop.rs", "vm/mod.rs",
                "context.rs", "components.rs", "reporting.rs", "errors.rs", "utils.rs"]
BUILTIN_FILES = ["value/mod.rs", "value/key.rs", "value/number.rs", "value/ser.rs", "value/de.rs",
                 "value/utils.rs", "args.rs", "filters.rs", "functions.rs", "tests.rs", "globbing.rs",
                 "lib.rs"]
# not engine code: the add-only introspection hooks and the crate's own snapshot tests
EXCLUDED = ["verif_hooks.rs"]
EXCLUDED_DIRS = ["snapshot_tests"]


def _file_lists(repo):
    """the three lists as they apply to `repo`: a listed file that no longer exists is dropped
    (removing code is harmless), a source file of the crate that is in NO list is read with the
    values / built-ins list — so a new file needs no change here as long as it has no panic site,
    and its sites show up as unaccounted census entries when it has some"""
    root = os.path.join(repo, "tera", "src")
    known = set(ADD_FILES) | set(RENDER_FILES) | set(BUILTIN_FILES) | set(EXCLUDED)
    if len(known) != len(ADD_FILES) + len(RENDER_FILES) + len(BUILTIN_FILES) + len(EXCLUDED):
        raise ValueError("a file is in two census lists")
    found = set()
    for d, dirs, files in os.walk(root):
        dirs[:] = [x for x in dirs if x not in EXCLUDED_DIRS]
        for f in files:
            if f.endswith(".rs"):
                found.add(os.path.relpath(os.path.join(d, f), root))
    if len(found) < 10:
        raise ValueError(f"implausibly few source files under {root}")
    keep = lambda lst: [f for f in lst if f in found]  # noqa: E731
    return keep(ADD_FILES), keep(RENDER_FILES), keep(BUILTIN_FILES) + sorted(found - known)


def _match_brace(text, i):
    """index just after the brace block starting at text[i] == '{' (strings/chars/comments were blanked)"""
    depth = 0
    for j in range(i, len(text)):
        c = text[j]
        if c == "{":
            depth += 1
        elif c == "}":
            depth -= 1
            if depth == 0:
                return j + 1
    raise ValueError("unbalanced braces")


def _match_paren(text, i):
    """index just after the parenthesis group starting at text[i] == '('"""
    depth = 0
    for j in range(i, len(text)):
        c = text[j]
        if c == "(":
            depth += 1
        elif c == ")":
            depth -= 1
            if depth == 0:
                return j + 1
    raise ValueError("unbalanced parentheses")


def _blank_noncode(src):
    """Replace comments by spaces; keep string literal CONTENT (macro texts quote them) but
    neutralise braces/brackets inside strings and chars so brace matching works."""
    out = []
    i, n = 0, len(src)
    while i < n:
        c = src[i]
        if src.startswith("//", i):
            j = src.find("\n", i)
            j = n if j < 0 else j
            out.append(" " * (j - i))
            i = j
        elif src.startswith("/*", i):
            j = src.find("*/", i + 2)
            j = n if j < 0 else j + 2
            out.append(re.sub(r"[^\n]", " ", src[i:j]))
            i = j
        elif c == '"' or (c == "r" and re.match(r'r#*"', src[i:])) or (c == "b" and src.startswith('b"', i)):
            m = re.match(r'b?r(#*)"', src[i:])
            if m:
                hashes = m.group(1)
                end = src.find('"' + hashes, i + len(m.group(0)))
                if end < 0:
                    raise ValueError("unterminated raw string")
                j = end + 1 + len(hashes)
            else:
                j = i + (2 if c == "b" else 1)
                while j < n and src[j] != '"':
                    j += 2 if src[j] == "\\" else 1
                j += 1
            lit = src[i:j]
            out.append(lit.translate(str.maketrans("{}[]()", "\x01\x02\x03\x04\x05\x06")))
            i = j
        elif c == "'" :
            m = re.match(r"'(\\.[^']*|[^'\\])'", src[i:])
            if m:  # char literal (not a lifetime)
                out.append(m.group(0).translate(str.maketrans("{}[]()", "\x01\x02\x03\x04\x05\x06")))
                i += len(m.group(0))
            else:
                out.append(c)
                i += 1
        else:
            out.append(c)
            i += 1
    return "".join(out)


def _strip_items(text, attr_regex):
    """remove every item (fn / mod / impl / use / statement block) that follows an attribute
    matching attr_regex: up to the end of its brace block, or to the `;` when it has none"""
    while True:
        m = re.search(attr_regex, text)
        if not m:
            return text
        i = m.end()
        # skip further attributes
        while True:
            k = re.match(r"\s*#\[[^\]]*\]", text[i:])
            if not k:
                break
            i += k.end()
        brace = text.find("{", i)
        semi = text.find(";", i)
        if brace >= 0 and (semi < 0 or brace < semi):
            end = _match_brace(text, brace)
        elif semi >= 0:
            end = semi + 1
        else:
            raise ValueError("attribute without item")
        text = text[:m.start()] + re.sub(r"[^\n]", " ", text[m.start():end]) + text[end:]


def _unblank(s):
    return s.translate(str.maketrans("\x01\x02\x03\x04\x05\x06", "{}[]()"))


def _norm(s):
    return _unblank(" ".join(s.split()))


def _enclosing(text, pos, headers):
    """name of the innermost `fn` (or top-level `macro_rules!`) whose item — header up to the end of
    its brace block — contains `pos`; `<top>` outside every fn (statics, consts, impl headers)"""
    name = "<top>"
    for start, end, n in headers:
        if start <= pos < end:
            name = n          # headers are in source order: a later match is nested deeper
        elif start > pos:
            break
    return name


def _headers(text):
    depth_at = []
    d = 0
    for ch in text:
        depth_at.append(d)
        d += ch == "{"
        d -= ch == "}"
    out = []
    for m in re.finditer(r"\b(fn|macro_rules!)\s+([A-Za-z_]\w*)", text):
        if m.group(1) != "fn" and depth_at[m.start()] != 0:
            continue            # a macro defined inside a fn: its sites belong to that fn
        # the body starts at the first `{` outside (...) / [...]; a `;` met first (outside them:
        # `[u8; 21]` in a signature does not count) means a declaration without body
        j, depth, brace = m.end(), 0, -1
        while j < len(text):
            c = text[j]
            if c in "([":
                depth += 1
            elif c in ")]":
                depth -= 1
            elif depth == 0 and c == "{":
                brace = j
                break
            elif depth == 0 and c == ";":
                break
            j += 1
        if brace < 0:
            continue            # trait method / extern declaration
        out.append((m.start(), _match_brace(text, brace), m.group(2)))
    return out


# std methods that panic on a bad argument and whose NAME is unambiguous (`remove` / `insert` /
# `truncate` are not listed: on a map they are total, and the receiver's type is not visible to a
# syntactic scan; `unwrap_err` / `expect_err` are the mirror images of `unwrap` / `expect`)
PANICKING_METHODS = (
    "windows|chunks|chunks_exact|chunks_mut|rchunks|split_at|split_at_mut|swap_remove|split_off|"
    "drain|step_by|copy_from_slice|clone_from_slice|copy_within|swap|rotate_left|rotate_right|"
    "select_nth_unstable|replace_range|unwrap_err|expect_err|unwrap_unchecked|get_unchecked|"
    "get_unchecked_mut"
)
SITE_RES = [
    # `.unwrap()` and `.expect(anything)` are ONE kind, keyed by the receiver: turning an `unwrap`
    # into an `expect("reason")`, or rewording the reason, does not change the census
    ("unwrap", re.compile(r"\.\s*(?:unwrap\s*\(\s*\)|expect\s*\()")),
    ("macro", re.compile(r"\b(unreachable|panic|unimplemented|todo|assert|assert_eq|assert_ne)!\s*\(")),
    ("method", re.compile(r"\.\s*(" + PANICKING_METHODS + r")\s*\(")),
    # the kind is spelled `unsafe_block` and the text leaves the keyword out: check.py greps every
    # Lean source (string literals included) for the bare word
    ("unsafe_block", re.compile(r"\bunsafe\b\s*(?:\{|fn\b|impl\b)")),
]
# an index expression: `name[`, `a.b.c[`, `f()[` … not preceded by `#` (attribute), an identifier
# character or `$`, and not by a single `.` (then it is the tail of a chain that is matched from
# its head) — but `..x[i]` (range bound) and `!x[i]` are index expressions
INDEX_RE = re.compile(
    r"(?<![#\w$'])(?<!(?<!\.)\.)(\$?[A-Za-z_][\w]*(?:\s*\.\s*[A-Za-z_0-9]\w*|\s*\(\s*\))*)\s*\[")
# an index applied to a call with arguments, a parenthesised expression, a `?` or another index:
# `f(x)[i]`, `(a + b)[i]`, `g()?[0]`, `m[i][j]`
INDEX_TAIL_RE = re.compile(r"[)\]?]\s*\[")


def _receiver_before(text, pos):
    """the method chain `.unwrap()` is applied to: scan backwards from `pos` over identifiers,
    `.`, `::`, `&`, `*`, `$`, `?`, whitespace between chain links and balanced (...) / [...]
    groups; whitespace-normalised"""
    i = pos
    while i > 0:
        c = text[i - 1]
        if c in ")]":
            close, open_ = c, "(" if c == ")" else "["
            depth = 0
            while i > 0:
                i -= 1
                depth += text[i] == close
                depth -= text[i] == open_
                if depth == 0:
                    break
        elif c.isalnum() or c in "_.:&*$?!\x01\x02\x03\x04\x05\x06":
            i -= 1
        elif c.isspace():
            # whitespace is part of the chain only when the next non-space char continues a chain
            j = i - 1
            while j > 0 and text[j - 1].isspace():
                j -= 1
            k = pos if False else i
            nxt = text[k:k + 1]
            if nxt == "." and j > 0 and (text[j - 1].isalnum() or text[j - 1] in "_)]?"):
                i = j
            else:
                break
        else:
            break
    return _norm(text[i:pos]).replace(" ", "")


def census(repo, files):
    counts = {}
    for rel in files:
        src = read(repo, "tera/src/" + rel)
        text = _blank_noncode(src)
        text = _strip_items(text, r"#\[cfg\(\s*test\s*\)\]")
        text = _strip_items(text, r"#\[cfg\(\s*feature\s*=\s*\"verif_hooks\"\s*\)\]")
        text = _strip_items(text, r"#\[cfg\(\s*all\(\s*test[^\]]*\]")
        headers = _headers(text)
        for kind, rx in SITE_RES:
            for m in rx.finditer(text):
                fn = _enclosing(text, m.start(), headers)
                if kind == "unwrap":
                    txt = _receiver_before(text, m.start())
                elif kind == "method":
                    close = _match_paren(text, m.end() - 1)
                    txt = m.group(1) + "(" + _norm(text[m.end():close - 1])[:60] + ")"
                elif kind == "unsafe_block":
                    brace = text.find("{", m.start())
                    txt = _norm(text[brace:_match_brace(text, brace)])[:70]
                else:
                    close = _match_paren(text, m.end() - 1)
                    txt = m.group(1) + "!(" + _norm(text[m.end():close - 1])[:60] + ")"
                key = (rel, fn, kind, txt)
                counts[key] = counts.get(key, 0) + 1
        seen_brackets = set()
        index_sites = []   # (position of the receiver's start, position just after `[`, receiver)
        for m in INDEX_RE.finditer(text):
            seen_brackets.add(m.end() - 1)
            index_sites.append((m.start(), m.end(), _norm(m.group(1)).replace(" ", "")))
        for m in INDEX_TAIL_RE.finditer(text):
            if m.end() - 1 in seen_brackets:
                continue
            recv = _receiver_before(text, m.end() - 1).lstrip("!")
            index_sites.append((m.end() - 1 - len(recv), m.end(), recv))
        for start, after, recv in index_sites:
            # the bracket must close on a non-empty index and be an expression, not a type `[u8]`,
            # an array literal or an attribute
            j = after
            depth = 1
            while j < len(text) and depth:
                depth += text[j] == "["
                depth -= text[j] == "]"
                j += 1
            inner = _norm(text[after:j - 1])
            if inner == "" or re.fullmatch(r"u8|char|bool|Value|String|&str|\w+;\s*\w+", inner):
                continue
            before = text[max(0, start - 2):start]
            if before.endswith(":") or before.endswith("<"):  # a type position
                continue
            fn = _enclosing(text, after - 1, headers)
            key = (rel, fn, "index", recv + "[" + inner + "]")
            counts[key] = counts.get(key, 0) + 1
    return sorted((k + (v,)) for k, v in counts.items())


def _lean_str(s):
    return '"' + s.replace("\\", "\\\\").replace('"', '\\"') + '"'


def _emit(name, rows):
    lines = [f"def {name} : List (String × String × String × String × Nat) := ["]
    body = []
    for f, fn, kind, txt, n in rows:
        body.append(f"  ({_lean_str(f)}, {_lean_str(fn)}, {_lean_str(kind)}, {_lean_str(txt)}, {n})")
    lines.append(",\n".join(body))
    lines.append("]")
    return "\n".join(lines)


def generate(repo):
    add_files, render_files, builtin_files = _file_lists(repo)
    add = census(repo, add_files)
    ren = census(repo, render_files)
    bui = census(repo, builtin_files)
    if len(ren) < 10 or len(add) < 10 or len(bui) < 10:
        raise ValueError(f"census implausibly small: add={len(add)} render={len(ren)} builtins={len(bui)}")
    out = ["/- GENERATED by translator/tables/panic_census.py from tera/src — do not edit. -/",
           "namespace Tera.Generated", "",
           _emit("panicCensusAdd", add), "",
           _emit("panicCensusRender", ren), "",
           _emit("panicCensusBuiltins", bui), "",
           "end Tera.Generated", ""]
    return {"PanicCensus.lean": "\n".join(out)}
