"""C17: the three built-in registration lists of tera/src/tera.rs, the Rust signature of every
registered built-in (receiver type = which `ArgFromValue` impl guards the call; keyword arguments
with their types and whether they are required, read from the `kwargs.get::<T>("k")` /
`kwargs.must_get::<T>("k")` calls in the body, in source order) and `MAX_RANGE_LEN`.

-> Generated/Builtins.lean
"""
import os
import re
import sys

sys.path.insert(0, os.path.dirname(os.path.abspath(__file__)))
from _util import read, const_usize, fn_body  # noqa: E402

OUTPUTS = ["Builtins.lean"]


def registered(tera_rs, fn_name, call):
    body = fn_body(tera_rs, rf"fn {fn_name}\s*\(&mut self\)\s*\{{")
    rx = rf'self\s*\.\s*{call}\s*\(\s*"(\w+)"\s*,\s*crate::(\w+)::(\w+)\s*,?\s*\)\s*;'
    out = [(m.group(1), m.group(2), m.group(3)) for m in re.finditer(rx, body)]
    leftovers = re.sub(r"\s", "", re.sub(rx, "", body))
    if leftovers:
        raise ValueError(f"unrecognised code in {fn_name}: {leftovers[:80]}")
    if not out:
        raise ValueError(f"{fn_name}: nothing registered")
    # canonical order (see builtins_order.json): registration order is irrelevant for a map
    import json
    canon = json.load(open(os.path.join(os.path.dirname(os.path.abspath(__file__)), "builtins_order.json")))
    kind = {"register_filter": "filter", "register_test": "test", "register_function": "function"}[call]
    pos = {n: i for i, n in enumerate(canon.get(kind, []))}
    known = sorted((r for r in out if r[0] in pos), key=lambda r: pos[r[0]])
    return known + [r for r in out if r[0] not in pos]


def signature(src, module, fn, has_receiver):
    m = re.search(rf"pub\(crate\) fn {fn}\s*\(([^)]*)\)\s*->\s*([^{{]+)\{{", src)
    if not m:
        raise ValueError(f"{module}::{fn}: signature not found")
    params = [p.strip() for p in m.group(1).replace("Cow<'_, str>", "Cow<str>").split(",") if p.strip()]
    if has_receiver:
        if len(params) != 3:
            raise ValueError(f"{module}::{fn}: expected (value, kwargs, state), got {params}")
        rm = re.fullmatch(r"\w+:\s*(.+)", params[0])
        recv = rm.group(1).replace("'_", "").replace(" ", "")
        kw = params[1]
    else:
        if len(params) != 2:
            raise ValueError(f"{module}::{fn}: expected (kwargs, state), got {params}")
        recv = "-"
        kw = params[0]
    if not re.fullmatch(r"\w+:\s*Kwargs", kw):
        raise ValueError(f"{module}::{fn}: kwargs parameter not recognised: {kw}")
    body = fn_body(src, rf"pub\(crate\) fn {fn}\s*\(")
    kwargs = []
    for km in re.finditer(r'kwargs\s*\.\s*(get|must_get)::<([^>]+)>\(\s*"(\w+)"\s*\)', body):
        kwargs.append((km.group(3), km.group(2).replace(" ", ""), km.group(1) == "must_get"))
    # every use of `kwargs` in the body must be one of the calls above (else the shape is new)
    uses = len(re.findall(r"\bkwargs\b", body))
    if uses != len(kwargs):
        raise ValueError(f"{module}::{fn}: {uses} uses of kwargs but {len(kwargs)} recognised get/must_get calls")
    return recv, kwargs


KNOWN_TYPES = {"&str", "Cow<str>", "Value", "&Value", "&[Value]", "&Map", "f64", "Number", "bool", "usize", "u32",
               "i32", "i128", "-"}


VARIANT = r"ValueInner::(\w+)"


def value_method_row(value_rs, method):
    """the `ValueInner` variants for which `Value::<method>` answers Some / true"""
    body = fn_body(value_rs, rf"pub fn {method}\s*\(&self\)")
    head = body.split("_ =>")[0] if "_ =>" in body else body
    row = re.findall(VARIANT, head)
    if not row:
        raise ValueError(f"Value::{method}: no ValueInner arm recognised")
    return row


def arg_rows(args_rs, value_rs):
    """(Rust argument type -> ValueInner variants the ArgFromValue impl does not answer with
    InvalidArgument), read from args.rs (and the Value accessors it calls)."""
    rows = {}
    # impl_for_literal!(ty, { ValueInner::X(..) => .., })
    for m in re.finditer(r"impl_for_literal!\((\w+),\s*\{(.*?)\}\);", args_rs, re.S):
        rows[m.group(1)] = re.findall(VARIANT, m.group(2))
    # int_from_value: the arms before the `_ => return Err(invalid_arg_type)` arm
    body = fn_body(args_rs, r"fn int_from_value<T>\(")
    if "_ => return Err(Error::invalid_arg_type" not in body:
        raise ValueError("int_from_value: fall-through arm not recognised")
    head = body.split("_ => return Err(Error::invalid_arg_type")[0]
    ints = re.findall(VARIANT, head)
    if "ValueInner::F64(v) if v.trunc() == *v" not in head:
        raise ValueError("int_from_value: the guard of the F64 arm changed")
    int_types = re.findall(r"impl_for_int!\((\w+)\);", args_rs)
    for t in int_types:
        rows[t] = ints
    # impls written by hand: classify by the accessor they rely on
    def impl_body(ty_regex):
        m = re.search(rf"impl<'k> ArgFromValue<'k> for {ty_regex} \{{", args_rs)
        if not m:
            raise ValueError(f"ArgFromValue impl for {ty_regex} not found")
        i = m.end() - 1
        depth = 0
        for j in range(i, len(args_rs)):
            if args_rs[j] == "{":
                depth += 1
            elif args_rs[j] == "}":
                depth -= 1
                if depth == 0:
                    return args_rs[i:j]
        raise ValueError("unbalanced braces")
    everything = ["Undefined", "None", "Bool", "U64", "I64", "U128", "I128", "F64", "String", "Array", "Map", "Bytes"]
    b = impl_body(r"&str")
    if ".as_str()" not in b or "invalid_arg_type" not in b:
        raise ValueError("&str impl: shape not recognised")
    rows["&str"] = value_method_row(value_rs, "as_str")
    for ty, rx in (("&Map", r"&Map"),):
        b = impl_body(rx)
        if ".as_map()" not in b or "invalid_arg_type" not in b:
            raise ValueError(f"{ty} impl: shape not recognised")
        rows[ty] = value_method_row(value_rs, "as_map")
    b = impl_body(r"&\[Value\]")
    if "invalid_arg_type" not in b:
        raise ValueError("&[Value] impl: shape not recognised")
    rows["&[Value]"] = re.findall(VARIANT, b.split("_ =>")[0])
    b = impl_body(r"Number")
    if "as_number()" not in b or "is_number()" not in b or "invalid_arg_type" not in b:
        raise ValueError("Number impl: shape not recognised")
    rows["Number"] = value_method_row(value_rs, "is_number")
    for ty, rx in (("Value", r"Value"), ("&Value", r"&Value"), ("Cow<str>", r"Cow<'_, str>")):
        b = impl_body(rx)
        if "invalid_arg_type" in b or "Err(" in b:
            raise ValueError(f"{ty} impl can fail now: shape not recognised")
        rows[ty] = everything
    return rows


def lean_str(s):
    return '"' + s.replace("\\", "\\\\").replace('"', '\\"') + '"'


def generate(repo):
    tera_rs = read(repo, "tera/src/tera.rs")
    srcs = {m: read(repo, f"tera/src/{m}.rs") for m in ("filters", "tests", "functions")}
    groups = [
        ("filter", registered(tera_rs, "register_builtin_filters", "register_filter"), True),
        ("test", registered(tera_rs, "register_builtin_tests", "register_test"), True),
        ("function", registered(tera_rs, "register_builtin_functions", "register_function"), False),
    ]
    max_range = const_usize(srcs["functions"], "MAX_RANGE_LEN")
    out = ["namespace Tera.Generated.Builtins", ""]
    out.append(f"def MAX_RANGE_LEN : Nat := {max_range}")
    out.append("")
    for kind, regs, has_recv in groups:
        names = [r[0] for r in regs]
        if len(set(names)) != len(names):
            raise ValueError(f"duplicate {kind} registration")
        out.append(f"/-- registered {kind} names, in the canonical order of builtins_order.json -/")
        out.append(f"def {kind}Names : List String := [" + ", ".join(lean_str(n) for n in names) + "]")
        out.append("")
        out.append(f"/-- (name, receiver type, [(kwarg, type, required)]) of every registered {kind} -/")
        out.append(f"def {kind}Sigs : List (String × String × List (String × String × Bool)) := [")
        rows = []
        for name, module, fn in regs:
            want = {"filter": "filters", "test": "tests", "function": "functions"}[kind]
            if module != want:
                raise ValueError(f"{kind} {name} registered from unexpected module {module}")
            recv, kwargs = signature(srcs[module], module, fn, has_recv)
            for t in [recv] + [k[1] for k in kwargs]:
                if t not in KNOWN_TYPES:
                    raise ValueError(f"{module}::{fn}: argument type `{t}` has no ArgFromValue row in the model")
            kw = ", ".join(f"({lean_str(k)}, {lean_str(t)}, {'true' if r else 'false'})" for k, t, r in kwargs)
            rows.append(f"  ({lean_str(name)}, {lean_str(recv)}, [{kw}])")
        out.append(",\n".join(rows))
        out.append("]")
        out.append("")
    rows = arg_rows(read(repo, "tera/src/args.rs"), read(repo, "tera/src/value/mod.rs"))
    used = sorted(KNOWN_TYPES - {"-"})
    out.append("/-- (argument type, the `ValueInner` variants its `ArgFromValue` impl does not refuse with")
    out.append("InvalidArgument) for every argument type the built-ins use; for the integer types the `F64`")
    out.append("variant is accepted only when the float is integral (`v.trunc() == *v`) -/")
    out.append("def argRows : List (String × List String) := [")
    rws = []
    for t in used:
        if t not in rows:
            raise ValueError(f"no ArgFromValue row extracted for `{t}`")
        rws.append(f"  ({lean_str(t)}, [" + ", ".join(lean_str(v) for v in rows[t]) + "])")
    out.append(",\n".join(rws))
    out.append("]")
    out.append("")
    out.append("end Tera.Generated.Builtins")
    return {"Builtins.lean": "\n".join(out) + "\n"}
