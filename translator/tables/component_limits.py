"""C05: `MAX_COMPONENT_RECURSION_DEPTH` (tera/src/vm/interpreter.rs), the guard it is used in, and the
type names accepted for component parameters (`impl FromStr for Type`, tera/src/parsing/ast.rs)
together with the `Type` each maps to, `Type::matches_value` and `Type::from_value` (which value
kinds each type accepts / is inferred from).

Output: Generated/ComponentLimits.lean

    Tera.Generated.MAX_COMPONENT_RECURSION_DEPTH : Nat
    Tera.Generated.componentTypeNames : List (String × String)     -- source name -> Type variant
    Tera.Generated.typeMatchesKinds  : List (String × List String) -- Type variant -> ValueKind names accepted
    Tera.Generated.typeInferredFrom  : List (String × String)      -- ValueKind name -> Type variant inferred

Raises when the guard is not `let depth = self.component_recursion_depth + 1; if depth >
MAX_COMPONENT_RECURSION_DEPTH { return Err(` or when a match arm has an unknown shape.
"""
import os
import re
import sys

sys.path.insert(0, os.path.dirname(os.path.abspath(__file__)))
from _util import const_usize, fn_body, read  # noqa: E402

OUTPUTS = ["ComponentLimits.lean"]

KINDS = ["Undefined", "None", "Bool", "U64", "I64", "F64", "U128", "I128", "String", "Array", "Map", "Bytes"]
PRED = {"is_string": ["String"], "is_bool": ["Bool"], "is_map": ["Map"], "is_array": ["Array"], "is_bytes": ["Bytes"],
        "is_number": ["U64", "I64", "F64", "U128", "I128"]}


def generate(repo):
    interp = read(repo, "tera/src/vm/interpreter.rs")
    limit = const_usize(interp, "MAX_COMPONENT_RECURSION_DEPTH")
    body = fn_body(interp, r"fn render_component\s*\(\s*&self\s*,\s*chunk\s*:\s*&Chunk\s*,\s*context\s*:\s*Context\s*\)[^{]*\{")
    g = re.search(r"let\s+(\w+)\s*=\s*self\.component_recursion_depth\s*\+\s*1\s*;\s*if\s+(\w+)\s*>\s*MAX_COMPONENT_RECURSION_DEPTH\s*\{\s*return\s+Err\(", body)
    if not g or g.group(1) != g.group(2):
        raise ValueError("render_component: recursion guard not recognised")
    if not re.search(rf"component_recursion_depth\s*:\s*{g.group(1)}\s*[,}}]", body):
        raise ValueError("render_component: the new VM does not take the incremented depth")
    inc = fn_body(interp, r"fn render_include\s*\(")
    if not re.search(r"component_recursion_depth\s*:\s*self\.component_recursion_depth\s*[,}]", inc):
        raise ValueError("render_include: the depth counter is not carried into the include's VM")
    if not re.search(r"autoescape_override\s*:\s*self\.autoescape_override\s*[,}]", inc):
        raise ValueError("render_include: the autoescape override is not carried into the include's VM")

    ast = read(repo, "tera/src/parsing/ast.rs")
    m = re.search(r"impl (?:std::str::)?FromStr for Type\s*\{", ast)
    if not m:
        raise ValueError("impl FromStr for Type not found")
    fs = fn_body(ast[m.start():], r"fn from_str\s*\(")
    names = re.findall(r'"(\w+)"\s*=>\s*Ok\(Type::(\w+)\)\s*,', fs)
    arms = [l.strip() for l in fs.splitlines() if "=>" in l]
    if len(names) + 1 != len([a for a in arms if not a.startswith("//")]):
        raise ValueError(f"Type::from_str: unrecognised arms ({len(names)} names, {len(arms)} arms)")
    variants = sorted({v for _, v in names})

    mv = fn_body(ast, r"pub fn matches_value\s*\(\s*&self\s*,\s*value\s*:\s*&Value\s*\)[^{]*\{")
    matches = {}
    for t, rhs in re.findall(r"Type::(\w+)\s*=>\s*(.*?),\s*(?=Type::|\}\s*$)", mv.strip() + "\n", re.S):
        rhs = " ".join(rhs.split())
        p = re.fullmatch(r"value\.(\w+)\(\)", rhs)
        if p and p.group(1) in PRED:
            matches[t] = PRED[p.group(1)]
            continue
        q = re.fullmatch(r"matches!\(\s*value\.kind\(\)\s*,\s*(.*?)\s*\)", rhs)
        if q:
            kinds = [k.strip().replace("ValueKind::", "") for k in q.group(1).split("|")]
            if not all(k in KINDS for k in kinds):
                raise ValueError(f"matches_value: unknown kinds {kinds}")
            matches[t] = kinds
            continue
        raise ValueError(f"matches_value: arm for {t} not understood: {rhs!r}")
    if sorted(matches) != variants:
        raise ValueError(f"matches_value covers {sorted(matches)}, from_str yields {variants}")

    fv = fn_body(ast, r"pub fn from_value\s*\(\s*val\s*:\s*&Value\s*\)[^{]*\{")
    inferred = {}
    for lhs, rhs in re.findall(r"((?:ValueKind::\w+\s*\|?\s*)+)=>\s*\{?\s*(Some\(Type::\w+\)|None)", fv):
        kinds = [k.strip().replace("ValueKind::", "") for k in lhs.split("|") if k.strip()]
        for k in kinds:
            if k not in KINDS or k in inferred:
                raise ValueError(f"from_value: kind {k} unknown or repeated")
            inferred[k] = None if rhs == "None" else re.search(r"Type::(\w+)", rhs).group(1)
    if sorted(inferred) != sorted(KINDS):
        raise ValueError(f"from_value does not cover every kind: {sorted(inferred)}")

    def lst(xs):
        return "[" + ", ".join(xs) + "]"

    out = ["namespace Tera.Generated", "",
           "/-- `MAX_COMPONENT_RECURSION_DEPTH` (tera/src/vm/interpreter.rs); `render_component` fails when",
           "`self.component_recursion_depth + 1` exceeds it, and `render_include` carries the counter -/",
           f"def MAX_COMPONENT_RECURSION_DEPTH : Nat := {limit}", "",
           "/-- `Type::from_str`: type name in a component signature -> `Type` variant -/",
           "def componentTypeNames : List (String × String) := " + lst(f'("{a}", "{b}")' for a, b in names), "",
           "/-- `Type::matches_value`: `Type` variant -> value kinds accepted -/",
           "def typeMatchesKinds : List (String × List String) := "
           + lst('("%s", %s)' % (t, lst('"%s"' % k for k in matches[t])) for t in variants), "",
           "/-- `Type::from_value`: value kind -> `Type` variant inferred from a default value (kinds absent: none) -/",
           "def typeInferredFrom : List (String × String) := "
           + lst(f'("{k}", "{inferred[k]}")' for k in KINDS if inferred[k]), "",
           "end Tera.Generated"]
    return {"ComponentLimits.lean": "\n".join(out) + "\n"}
