"""The percent-encode sets of tera-contrib/src/urlencode.rs as explicit 128-row Bool tables.

`urlencode` uses PYTHON_ENCODE_SET, `urlencode_strict` uses percent_encoding::NON_ALPHANUMERIC.
Every set is a chain `<BASE>.add(b'x').remove(b'y')…` over another named set; the two roots
(`CONTROLS`, `NON_ALPHANUMERIC`) live in the percent-encoding crate whose locked version is read
from the registry copy cargo builds from.  Raises when a chain, a byte literal or the set a filter
uses is not recognised.
"""
import glob
import os
import re
import sys

sys.path.insert(0, os.path.dirname(os.path.abspath(__file__)))
from _util import read  # noqa: E402

OUTPUTS = ["ContribSets.lean"]

BYTE = r"b'(\\.|[^\\'])'"


def _byte(lit):
    if len(lit) == 1:
        return ord(lit)
    esc = {"\\'": 39, "\\\\": 92, "\\n": 10, "\\r": 13, "\\t": 9, "\\0": 0, '\\"': 34}
    if lit in esc:
        return esc[lit]
    raise ValueError(f"byte literal b'{lit}' not understood")


def _chains(text):
    """{NAME: (base, [(op, byte), …])} for every `const NAME: &AsciiSet = &BASE.op(b'..')…;`"""
    out = {}
    for m in re.finditer(r"const\s+(\w+)\s*:\s*&AsciiSet\s*=\s*&\s*([\w:]+)\s*((?:\s*\.\s*(?:add|remove)\s*\(\s*" + BYTE + r"\s*\))+)\s*;", text):
        name, base, chain = m.group(1), m.group(2).split("::")[-1], m.group(3)
        ops = [(o.group(1), _byte(o.group(2))) for o in re.finditer(r"\.\s*(add|remove)\s*\(\s*" + BYTE + r"\s*\)", chain)]
        # nothing but the recognised calls may be in the chain
        if re.sub(r"\.\s*(add|remove)\s*\(\s*" + BYTE + r"\s*\)", "", chain).strip():
            raise ValueError(f"unrecognised text in the chain of {name}")
        out[name] = (base, ops)
    return out


def _crate_source(repo):
    lock = read(repo, "Cargo.lock")
    m = re.search(r'name = "percent-encoding"\nversion = "([^"]+)"', lock)
    if not m:
        raise ValueError("percent-encoding not in Cargo.lock")
    hits = glob.glob(os.path.expanduser(f"~/.cargo/registry/src/*/percent-encoding-{m.group(1)}/src/ascii_set.rs"))
    if not hits:
        raise ValueError(f"percent-encoding {m.group(1)} source not found in the cargo registry")
    return open(hits[0]).read(), m.group(1)


def generate(repo):
    src = read(repo, "tera-contrib/src/urlencode.rs")
    crate, version = _crate_source(repo)
    # root: CONTROLS = C0 controls and DEL
    m = re.search(r"pub const CONTROLS: &AsciiSet = &AsciiSet \{\s*mask: \[(.*?)\],\s*\};", crate, re.S)
    if not m:
        raise ValueError("CONTROLS not found in percent-encoding")
    rows = [re.sub(r"//.*", "", l).strip().rstrip(",") for l in m.group(1).strip().splitlines()]
    rows = [r for r in rows if r]
    if rows != ["!0_u32", "0", "0", "1 << (0x7F_u32 % 32)"]:
        raise ValueError(f"CONTROLS mask has an unexpected shape: {rows}")
    sets = {"CONTROLS": {b for b in range(128) if b < 0x20 or b == 0x7F}}
    chains = {}
    chains.update({k: v for k, v in _chains(crate.replace("pub const", "const")).items()})
    local = _chains(src)
    for k in local:
        if k in chains:
            raise ValueError(f"{k} defined twice")
    chains.update(local)

    def resolve(name, depth=0):
        if name in sets:
            return sets[name]
        if name not in chains or depth > 20:
            raise ValueError(f"AsciiSet {name} is not defined by a recognised chain")
        base, ops = chains[name]
        s = set(resolve(base, depth + 1))
        for op, b in ops:
            if b >= 128:
                raise ValueError("non-ASCII byte in an AsciiSet chain")
            if op == "add":
                s.add(b)
            else:
                s.discard(b)
        sets[name] = s
        return s

    def used_by(fn):
        m = re.search(r"pub fn " + fn + r"\s*\([^)]*\)\s*->\s*String\s*\{\s*percent_encode\(\s*val\.as_bytes\(\)\s*,\s*([\w:]+)\s*\)\s*\.to_string\(\)\s*\}", src)
        if not m:
            raise ValueError(f"body of {fn} not recognised")
        return m.group(1).split("::")[-1]

    py_name, strict_name = used_by("urlencode"), used_by("urlencode_strict")
    py, strict = resolve(py_name), resolve(strict_name)

    def table(s):
        cells = ["true" if b in s else "false" for b in range(128)]
        lines = [", ".join(cells[i:i + 16]) for i in range(0, 128, 16)]
        return "[\n  " + ",\n  ".join(lines) + "]"

    body = f"""/-
Percent-encode sets used by tera-contrib/src/urlencode.rs (percent-encoding {version}).
Row b of a table says whether ASCII byte b is in the set (is escaped).  Bytes ≥ 0x80 are always
escaped by `percent_encode` and are not part of the table.
-/
namespace Tera.Generated

/-- the set `urlencode` passes to `percent_encode`: `{py_name}` -/
def urlencodeSet : List Bool := {table(py)}

/-- the set `urlencode_strict` passes to `percent_encode`: `{strict_name}` -/
def urlencodeStrictSet : List Bool := {table(strict)}

end Tera.Generated
"""
    return {"ContribSets.lean": body}
