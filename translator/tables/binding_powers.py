"""Pratt binding powers, parser limits and the token -> operator map of tera/src/parsing/parser.rs,
and the operator precedence table of docs/content/_index.md.

Outputs:
  Generated/BindingPowers.lean
    Tera.Gen.binaryBindingPower : BinaryOperator -> Nat × Nat      (l_bp, r_bp) of `binary_binding_power`
    Tera.Gen.unaryBindingPower  : UnaryOperator -> Nat             r_bp of `unary_binding_power`
    Tera.Gen.TERNARY_L_BP, MAX_RECURSION_DEPTH, MAX_DIMENSION_ARRAY, MAX_NUM_LEFT_BRACKETS : Nat
    Tera.Gen.RESERVED_NAMES : List String
    Tera.Gen.binaryOperatorOfTok : Tok -> Option BinaryOperator     the `Token::X => BinaryOperator::Y`
        arms of the Pratt loop in `parse_expr_bp` (keyword operators come as `Tok.ident "kw"`)
    Tera.Gen.loopFields : List (String × String)                    `loop.<attr>` rewriting of `parse_ident`
  Generated/DocPrecedence.lean
    Tera.Gen.docPrecedenceRows : List (List String)                 rows of the documented table,
        lowest to highest binding power, operator spellings exactly as written in the docs

Raises when a match arm has an unexpected shape, when an operator of the enum has no binding power,
when the documentation has no precedence table or no longer says "From lowest to highest".
"""
import os
import re
import sys

sys.path.insert(0, os.path.dirname(os.path.abspath(__file__)))
from _util import const_usize, fn_body, read  # noqa: E402

OUTPUTS = ["BindingPowers.lean", "DocPrecedence.lean"]

BINARY = ["Mul", "Div", "Mod", "Plus", "Minus", "FloorDiv", "Power", "LessThan", "GreaterThan",
          "LessThanOrEqual", "GreaterThanOrEqual", "Equal", "NotEqual", "And", "Or", "StrConcat",
          "In", "Is", "Pipe"]
UNARY = ["Not", "Minus"]


def strip_comments(s):
    return re.sub(r"//[^\n]*", "", s)


def enum_variants(text, name):
    body = strip_comments(fn_body(text, rf"pub enum {name}\s*\{{"))
    return re.findall(r"^\s*([A-Z]\w*)\s*,", body, re.M)


def lower_first(s):
    return s[0].lower() + s[1:]


def lean_str(s):
    return '"' + s.replace("\\", "\\\\").replace('"', '\\"') + '"'


def binary_powers(parser):
    body = strip_comments(fn_body(parser, r"fn binary_binding_power\(op: BinaryOperator\) -> \(u8, u8\)\s*\{"))
    m = re.search(r"match op\s*\{", body)
    if not m:
        raise ValueError("binary_binding_power is not a `match op`")
    inner = fn_body(body[m.start():], r"match op\s*\{")
    table = {}
    consumed = 0
    for arm in re.finditer(r"\s*([A-Z]\w*(?:\s*\|\s*[A-Z]\w*)*)\s*=>\s*\(\s*(\d+)\s*,\s*(\d+)\s*\)\s*,", inner):
        consumed += len(arm.group(0))
        for v in re.split(r"\s*\|\s*", arm.group(1).strip()):
            if v in table:
                raise ValueError(f"BinaryOperator::{v} listed twice")
            table[v] = (int(arm.group(2)), int(arm.group(3)))
    if len(re.sub(r"\s+", "", inner)) != len(re.sub(r"\s+", "", "".join(
            a.group(0) for a in re.finditer(
                r"\s*([A-Z]\w*(?:\s*\|\s*[A-Z]\w*)*)\s*=>\s*\(\s*(\d+)\s*,\s*(\d+)\s*\)\s*,", inner)))):
        raise ValueError("binary_binding_power has arms of an unrecognised shape")
    return table


def unary_powers(parser):
    body = strip_comments(fn_body(parser, r"fn unary_binding_power\(op: UnaryOperator\) -> \(\(\), u8\)\s*\{"))
    m = re.search(r"match op\s*\{", body)
    if not m:
        raise ValueError("unary_binding_power is not a `match op`")
    inner = fn_body(body[m.start():], r"match op\s*\{")
    arms = list(re.finditer(r"\s*([A-Z]\w*)\s*=>\s*\(\s*\(\s*\)\s*,\s*(\d+)\s*\)\s*,", inner))
    if len(re.sub(r"\s+", "", inner)) != len(re.sub(r"\s+", "", "".join(a.group(0) for a in arms))):
        raise ValueError("unary_binding_power has arms of an unrecognised shape")
    return {a.group(1): int(a.group(2)) for a in arms}


def token_map(parser):
    """the `Token::X => BinaryOperator::Y,` arms inside parse_expr_bp"""
    body = strip_comments(fn_body(parser, r"fn parse_expr_bp\(&mut self, min_bp: u8\) -> TeraResult<Expression>\s*\{"))
    w = re.search(r"while let Some\(Ok\(\(ref token, _\)\)\) = self\.next\s*\{", body)
    if not w:
        raise ValueError("Pratt loop: `while let Some(Ok((ref token, _))) = self.next` not found")
    body = body[w.start():]
    m = re.search(r"let op = match token\s*\{", body)
    if not m:
        raise ValueError("Pratt loop: `let op = match token {` not found")
    inner = fn_body(body[m.start():], r"let op = match token\s*\{")
    pairs = []
    for arm in re.finditer(r"Token::(\w+)(?:\(\"(\w+)\"\))?\s*=>\s*BinaryOperator::(\w+)\s*,", inner):
        pairs.append((arm.group(1), arm.group(2), arm.group(3)))
    if len(pairs) < 10:
        raise ValueError("Pratt loop: operator arms not recognised")
    # the non-operator arms we know how to model by hand: not / [ / if / wildcard
    others = re.findall(r"Token::(\w+)(?:\(\"(\w+)\"\))?\s*=>\s*\{", inner)
    if sorted(others) != sorted([("Ident", "not"), ("LeftBracket", ""), ("Ident", "if")]):
        raise ValueError(f"Pratt loop: special arms changed: {others}")
    if not re.search(r"_\s*=>\s*break\s*,", inner):
        raise ValueError("Pratt loop: wildcard arm is not `break`")
    return pairs


def loop_fields(parser):
    body = strip_comments(fn_body(parser, r"fn parse_ident\(&mut self, ident: &str\) -> TeraResult<Expression>\s*\{"))
    m = re.search(r"let new_name = match attr\s*\{", body)
    if not m:
        raise ValueError("parse_ident: loop field rewriting not found")
    inner = fn_body(body[m.start():], r"let new_name = match attr\s*\{")
    pairs = re.findall(r"\"(\w+)\"\s*=>\s*\"(\w+)\"\s*,", inner)
    if not pairs:
        raise ValueError("parse_ident: no loop fields")
    return pairs


def reserved_names(parser):
    m = re.search(r"const RESERVED_NAMES: \[&str; (\d+)\] = \[(.*?)\];", parser, re.S)
    if not m:
        raise ValueError("RESERVED_NAMES not found")
    names = re.findall(r"\"(\w+)\"", m.group(2))
    if len(names) != int(m.group(1)):
        raise ValueError("RESERVED_NAMES length mismatch")
    return names


def doc_rows(doc):
    m = re.search(r"#### Operator precedence\n(.*?)\n\n\n", doc, re.S)
    if not m:
        raise ValueError("docs: `#### Operator precedence` section not found")
    sec = m.group(1)
    if "From lowest to highest binding power" not in sec:
        raise ValueError("docs: precedence table direction sentence changed")
    lines = [l.strip() for l in sec.splitlines() if l.strip().startswith("|")]
    if len(lines) < 3 or not re.fullmatch(r"\|\s*Operators\s*\|", lines[0]) or not re.fullmatch(r"\|\s*-+\s*\|", lines[1]):
        raise ValueError("docs: precedence table header not recognised")
    rows = []
    for l in lines[2:]:
        cell = l[1:-1].strip() if l.endswith("|") else None
        if cell is None:
            raise ValueError(f"docs: table row not recognised: {l}")
        items = []
        pos = 0
        # a row is a comma separated list of `code` spans, each optionally followed by " (unary)"
        for it in re.finditer(r"`((?:[^`\\]|\\.)+)`(\s*\(unary\))?\s*(,|$)\s*", cell):
            if it.start() != pos:
                raise ValueError(f"docs: table row not recognised: {l}")
            pos = it.end()
            text = it.group(1).replace("\\|", "|")
            if it.group(2):
                text += " (unary)"
            items.append(text)
        if pos != len(cell) or not items:
            raise ValueError(f"docs: table row not recognised: {l}")
        rows.append(items)
    return rows


def generate(repo):
    parser = read(repo, "tera/src/parsing/parser.rs")
    ast = read(repo, "tera/src/parsing/ast.rs")
    doc = read(repo, "docs/content/_index.md")

    if enum_variants(ast, "BinaryOperator") != BINARY:
        raise ValueError("ast::BinaryOperator variants changed")
    if enum_variants(ast, "UnaryOperator") != UNARY:
        raise ValueError("ast::UnaryOperator variants changed")

    bp = binary_powers(parser)
    if sorted(bp) != sorted(BINARY):
        raise ValueError(f"binary_binding_power does not cover the enum exactly: {sorted(bp)}")
    up = unary_powers(parser)
    if sorted(up) != sorted(UNARY):
        raise ValueError("unary_binding_power does not cover the enum exactly")
    ternary = const_usize(parser, "TERNARY_L_BP")
    # the uses of TERNARY_L_BP the model relies on
    if len(re.findall(r"inner_parse_expression\(\s*TERNARY_L_BP\s*\+\s*1\s*\)", parser)) != 2:
        raise ValueError("list comprehension no longer parses target/condition at TERNARY_L_BP + 1")
    if "if TERNARY_L_BP < min_bp {" not in parser or "if l_bp < min_bp {" not in parser \
            or "if in_l_bp < min_bp {" not in parser:
        raise ValueError("Pratt loop comparisons changed shape")
    toks = token_map(parser)
    fields = loop_fields(parser)
    reserved = reserved_names(parser)

    out = ["import TeraModel.Model.Ast", "import TeraModel.Model.Tok", "namespace Tera.Gen", "open Tera", ""]
    out.append("/-- `binary_binding_power`: (l_bp, r_bp) -/")
    out.append("def binaryBindingPower : BinaryOperator → Nat × Nat")
    for v in BINARY:
        out.append(f"  | .{v} => ({bp[v][0]}, {bp[v][1]})")
    out.append("")
    out.append("/-- `unary_binding_power`: r_bp -/")
    out.append("def unaryBindingPower : UnaryOperator → Nat")
    for v in UNARY:
        out.append(f"  | .{v} => {up[v]}")
    out.append("")
    out.append(f"def TERNARY_L_BP : Nat := {ternary}")
    for c in ["MAX_RECURSION_DEPTH", "MAX_DIMENSION_ARRAY", "MAX_NUM_LEFT_BRACKETS"]:
        out.append(f"def {c} : Nat := {const_usize(parser, c)}")
    out.append("")
    out.append("def RESERVED_NAMES : List String := [" + ", ".join(lean_str(n) for n in reserved) + "]")
    out.append("")
    out.append("/-- the operator arms of the Pratt loop (`parse_expr_bp`) -/")
    out.append("def binaryOperatorOfTok : Tok → Option BinaryOperator")
    for tok, kw, op in toks:
        if op not in BINARY:
            raise ValueError(f"unknown operator {op}")
        if tok == "Ident":
            out.append(f"  | .ident {lean_str(kw)} => some .{op}")
        else:
            if kw:
                raise ValueError("unexpected token payload")
            out.append(f"  | .{lower_first(tok)} => some .{op}")
    out.append("  | _ => none")
    out.append("")
    out.append("/-- `loop.<field>` rewriting in `parse_ident` -/")
    out.append("def loopFields : List (String × String) := ["
               + ", ".join(f"({lean_str(a)}, {lean_str(b)})" for a, b in fields) + "]")
    out.append("")
    out.append("end Tera.Gen")

    rows = doc_rows(doc)
    d = ["namespace Tera.Gen", "",
         "/-- rows of the operator precedence table of docs/content/_index.md, lowest to highest",
         "binding power; spellings as in the docs -/",
         "def docPrecedenceRows : List (List String) := ["]
    d.append(",\n".join("  [" + ", ".join(lean_str(i) for i in r) + "]" for r in rows))
    d.append("]")
    d.append("")
    d.append("end Tera.Gen")
    return {"BindingPowers.lean": "\n".join(out) + "\n", "DocPrecedence.lean": "\n".join(d) + "\n"}
