"""Helpers for table extractors."""
import re


def strip_rust_comments(src):
    """`//…` and `/*…*/` comments replaced by blanks (newlines kept, so line structure survives);
    string, raw-string, byte-string and char literals are left alone"""
    out = []
    i, n = 0, len(src)
    while i < n:
        c = src[i]
        if src.startswith("//", i):
            j = src.find("\n", i)
            j = n if j < 0 else j
            i = j
        elif src.startswith("/*", i):
            depth, j = 1, i + 2
            while j < n and depth:
                if src.startswith("/*", j):
                    depth += 1; j += 2
                elif src.startswith("*/", j):
                    depth -= 1; j += 2
                else:
                    j += 1
            out.append("".join(ch if ch == "\n" else " " for ch in src[i:j]))
            i = j
        elif c == '"' or re.match(r'b?r#*"', src[i:i + 8]) or src.startswith('b"', i):
            m = re.match(r'b?r(#*)"', src[i:])
            if m:
                end = src.find('"' + m.group(1), i + len(m.group(0)))
                j = n if end < 0 else end + 1 + len(m.group(1))
            else:
                j = i + (2 if c == "b" else 1)
                while j < n and src[j] != '"':
                    j += 2 if src[j] == "\\" else 1
                j += 1
            out.append(src[i:j])
            i = j
        elif c == "'":
            m = re.match(r"'(\\.[^']*|[^'\\])'", src[i:])
            if m:
                out.append(m.group(0))
                i += len(m.group(0))
            else:
                out.append(c)
                i += 1
        else:
            out.append(c)
            i += 1
    return "".join(out)


def read(repo, rel, keep_comments=False):
    """source text; Rust files are read WITHOUT their comments (a comment-only edit must not change
    what an extractor sees) unless keep_comments is set"""
    with open(f"{repo}/{rel}") as f:
        text = f.read()
    if rel.endswith(".rs") and not keep_comments:
        text = strip_rust_comments(text)
    return text


def _const_int_expr(expr):
    """value of a constant integer expression made of literals (with `_` separators and an optional
    integer-type suffix), + - * / % << >>, unary minus and parentheses — `40`, `4 * 10`, `1 << 5`,
    `100_000usize`; anything else raises"""
    import ast
    src = re.sub(r"(?<=\d)_(?=\d)", "", expr)
    src = re.sub(r"(\d)(?:usize|isize|u8|u16|u32|u64|u128|i8|i16|i32|i64|i128)\b", r"\1", src)
    src = src.replace("/", "//")
    tree = ast.parse(src.strip(), mode="eval")

    def ev(n):
        if isinstance(n, ast.Expression):
            return ev(n.body)
        if isinstance(n, ast.Constant) and isinstance(n.value, int) and not isinstance(n.value, bool):
            return n.value
        if isinstance(n, ast.UnaryOp) and isinstance(n.op, ast.USub):
            return -ev(n.operand)
        if isinstance(n, ast.BinOp):
            a, b = ev(n.left), ev(n.right)
            ops = {ast.Add: lambda: a + b, ast.Sub: lambda: a - b, ast.Mult: lambda: a * b,
                   ast.FloorDiv: lambda: a // b, ast.Mod: lambda: a % b,
                   ast.LShift: lambda: a << b, ast.RShift: lambda: a >> b}
            if type(n.op) in ops:
                return ops[type(n.op)]()
        raise ValueError(f"not a constant integer expression: {expr!r}")
    return ev(tree)


def const_usize(text, name):
    """`const NAME: usize = 40;` -> 40  (also `4 * 10`, `1 << 5`, `100_000`, with or without `pub`)"""
    m = re.search(rf"(?:const|static)\s+{name}\s*:\s*[\w:]+\s*=\s*([^;]+);", text)
    if not m:
        raise ValueError(f"constant {name} not found")
    return _const_int_expr(m.group(1))


def fn_body(text, signature_regex):
    """text of the body (between the outer braces) of the first fn whose header matches"""
    m = re.search(signature_regex, text)
    if not m:
        raise ValueError(f"function {signature_regex} not found")
    i = text.index("{", m.end() - 1) if text[m.end() - 1] != "{" else m.end() - 1
    depth = 0
    for j in range(i, len(text)):
        if text[j] == "{":
            depth += 1
        elif text[j] == "}":
            depth -= 1
            if depth == 0:
                return text[i + 1:j]
    raise ValueError("unbalanced braces")
