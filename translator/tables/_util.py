"""Helpers for table extractors."""
import re


def read(repo, rel):
    with open(f"{repo}/{rel}") as f:
        return f.read()


def const_usize(text, name):
    """`const NAME: usize = 40;` -> 40"""
    m = re.search(rf"const\s+{name}\s*:\s*\w+\s*=\s*([0-9_]+)\s*;", text)
    if not m:
        raise ValueError(f"constant {name} not found")
    return int(m.group(1).replace("_", ""))


def fn_body(text, signature_regex):
    """text of the body (between the outer braces) of the first fn whose header matches"""
    m = re.search(signature_regex, text)
    if not m:
        raise ValueError(f"function {signature_regex} not found")
    i = text.index("{", m.end() - 1) if text[m.end() - 1] != "{" else m.end() - 1
    depth = 0
    for j in range(i, len(text)):
        if text[j] == "{":
            depth += 1
        elif text[j] == "}":
            depth -= 1
            if depth == 0:
                return text[i + 1:j]
    raise ValueError("unbalanced braces")
