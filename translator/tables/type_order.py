"""Kind-rank tables used by the fallback arms of `Ord for Value` (tera/src/value/mod.rs) and
`Ord for Key` (tera/src/value/key.rs), and the scan/hash cutoff of `Value::get_attr`.

Output: Generated/TypeOrder.lean

    Tera.Gen.valueTypeOrder : List (String × Nat)     -- ValueInner variant name -> rank
    Tera.Gen.keyTypeOrder   : List (String × Nat)     -- Key variant name -> rank
    Tera.Gen.valueRank<Variant> / Tera.Gen.keyRank<Variant> : Nat   (what the model uses)
    Tera.Gen.ATTR_SCAN_CUTOFF (default features) / ATTR_SCAN_CUTOFF_PRESERVE_ORDER

Raises when a `type_order` body is not a plain `match` of `Variant(..) | Variant(..) => <int>,`
arms, when a variant of the enum is missing from its table, or when a constant is not found.
"""
import os
import re
import sys

sys.path.insert(0, os.path.dirname(os.path.abspath(__file__)))
from _util import _const_int_expr, fn_body, read  # noqa: E402

OUTPUTS = ["TypeOrder.lean"]

VALUE_VARIANTS = ["Undefined", "None", "Bool", "U64", "I64", "F64", "U128", "I128", "String",
                  "Array", "Map", "Bytes"]
KEY_VARIANTS = ["Bool", "U64", "I64", "U128", "I128", "String", "Str"]


def enum_variants(text, header_regex):
    body = fn_body(text, header_regex)
    # strip comments and attributes
    body = re.sub(r"//[^\n]*", "", body)
    body = re.sub(r"#\[[^\]]*\]", "", body)
    names = re.findall(r"^\s*([A-Z]\w*)\s*(?:\(|\{|,|$)", body, re.M)
    return names


def parse_table(body, enum_name):
    m = re.search(r"match\s+\w+\s*\{", body)
    if not m:
        raise ValueError(f"{enum_name}: type_order is not a `match`")
    inner = fn_body(body[m.start():], r"match\s+\w+\s*\{")
    inner = re.sub(r"//[^\n]*", "", inner)
    table = {}
    for arm in re.finditer(r"((?:\s*\|?\s*" + enum_name + r"::\w+\s*(?:\([^)]*\))?\s*)+)=>\s*([0-9]+)\s*,", inner):
        rank = int(arm.group(2))
        for v in re.findall(enum_name + r"::(\w+)", arm.group(1)):
            if v in table:
                raise ValueError(f"{enum_name}::{v} listed twice")
            table[v] = rank
    leftover = re.sub(r"\s+", "", inner)
    if "_=>" in leftover:
        raise ValueError(f"{enum_name}: type_order has a wildcard arm, table shape not recognised")
    return table


def lean_table(name, doc, variants, table):
    rows = ", ".join(f'("{v}", {table[v]})' for v in variants)
    return f"/-- {doc} -/\ndef {name} : List (String × Nat) := [{rows}]\n"


def generate(repo):
    mod = read(repo, "tera/src/value/mod.rs")
    key = read(repo, "tera/src/value/key.rs")

    # the enums themselves (so that a new variant is noticed)
    vvars = enum_variants(mod, r"pub\(crate\)\s+enum\s+ValueInner\s*\{")
    kvars = enum_variants(key, r"pub\s+enum\s+Key<'a>\s*\{")
    if sorted(vvars) != sorted(VALUE_VARIANTS):
        raise ValueError(f"ValueInner variants changed: {vvars}")
    if sorted(kvars) != sorted(KEY_VARIANTS):
        raise ValueError(f"Key variants changed: {kvars}")

    # Value: the type_order nested in `impl Ord for Value`
    ord_impl = fn_body(mod, r"impl\s+Ord\s+for\s+Value\s*\{")
    vbody = fn_body(ord_impl, r"fn\s+type_order\s*\(\s*\w+\s*:\s*&ValueInner\s*\)\s*->\s*u8\s*\{")
    vtable = parse_table(vbody, "ValueInner")
    if sorted(vtable) != sorted(VALUE_VARIANTS):
        raise ValueError(f"value type_order does not list every variant exactly once: {sorted(vtable)}")
    if not re.search(r"type_order\(&self\.inner\)\s*\.cmp\(&type_order\(&other\.inner\)\)", ord_impl):
        raise ValueError("Ord for Value no longer ends in type_order(self).cmp(type_order(other))")

    kbody = fn_body(key, r"fn\s+type_order\s*\(\s*\w+\s*:\s*&Key<'_>\s*\)\s*->\s*u8\s*\{")
    ktable = parse_table(kbody, "Key")
    if sorted(ktable) != sorted(KEY_VARIANTS):
        raise ValueError(f"key type_order does not list every variant exactly once: {sorted(ktable)}")

    # ATTR_SCAN_CUTOFF: two cfg-selected definitions inside get_attr
    ga = fn_body(mod, r"fn\s+get_attr<'a>\s*\([^)]*\)\s*->\s*Option<&'a Value>\s*\{")
    cut = re.findall(r"#\[cfg\((not\()?feature\s*=\s*\"preserve_order\"\)?\)\]\s*const\s+ATTR_SCAN_CUTOFF\s*:\s*usize\s*=\s*([^;]+?)\s*;", ga)
    cuts = {("default" if neg else "preserve_order"): _const_int_expr(v) for neg, v in cut}
    if set(cuts) != {"default", "preserve_order"}:
        raise ValueError(f"ATTR_SCAN_CUTOFF definitions not recognised: {cut}")
    if not re.search(r"m\.len\(\)\s*<=\s*ATTR_SCAN_CUTOFF", ga):
        raise ValueError("get_attr no longer guards the scan with `m.len() <= ATTR_SCAN_CUTOFF`")

    out = "namespace Tera.Gen\n\n"
    out += lean_table("valueTypeOrder",
                      "tera/src/value/mod.rs, `type_order` inside `impl Ord for Value`: rank of every `ValueInner` variant",
                      VALUE_VARIANTS, vtable)
    out += "\n" + lean_table("keyTypeOrder",
                             "tera/src/value/key.rs `type_order`: rank of every `Key` variant",
                             KEY_VARIANTS, ktable)
    out += "\n"
    for v in VALUE_VARIANTS:
        out += f"def valueRank{v} : Nat := {vtable[v]}\n"
    out += "\n"
    for v in KEY_VARIANTS:
        out += f"def keyRank{v} : Nat := {ktable[v]}\n"
    out += "\n"
    out += "/-- `ATTR_SCAN_CUTOFF` of `Value::get_attr` with the default features (no `preserve_order`) -/\n"
    out += f"def ATTR_SCAN_CUTOFF : Nat := {cuts['default']}\n"
    out += "/-- `ATTR_SCAN_CUTOFF` under the `preserve_order` feature (not the configuration studied) -/\n"
    out += f"def ATTR_SCAN_CUTOFF_PRESERVE_ORDER : Nat := {cuts['preserve_order']}\n"
    out += "\nend Tera.Gen\n"
    return {"TypeOrder.lean": out}
