"""Constants and tables of the lexer and of the delimiter configuration (C06, C08, C12):

  tera/src/delimiters.rs   `impl Default for Delimiters`            -> defaultDelims
  tera/src/parsing/lexer.rs two-byte operator table (`rest.as_bytes().get(..2)` match),
                            one-byte operator table (`.first()` match), string quote bytes,
                            the spread operator, escape table of `lex_string!`, raw tag names,
                            bool keywords, `Debug` names of the payload-free tokens
  tera/src/parsing/parser.rs `eoi()`: which fields of the span it overwrites
  tera/src/utils.rs `Span::expand`: translated statement by statement
  tera/src/tera.rs `set_delimiters`: order of validation and assignment
into lean/TeraModel/Generated/LexTables.lean.  Raises when a shape is not recognised.
"""
import os
import re
import sys

sys.path.insert(0, os.path.dirname(os.path.abspath(__file__)))
from _util import fn_body, read  # noqa: E402

OUTPUTS = ["LexTables.lean"]

OPS = ["Mul", "Div", "FloorDiv", "Mod", "Plus", "Minus", "Power", "LessThan", "ClosingTagStart",
       "GreaterThan", "LessThanOrEqual", "GreaterThanOrEqual", "Equal", "NotEqual", "Tilde", "Pipe",
       "Assign", "Dot", "QuestionMarkDot", "QuestionMarkLeftBracket", "Comma", "Colon", "Bang",
       "LeftBracket", "RightBracket", "LeftParen", "RightParen", "LeftBrace", "RightBrace", "Spread"]


def _byte_of(lit):
    """Rust byte/char literal body (`a`, `\\'`, `\\\\`, `\\n`) -> int"""
    esc = {"\\'": 39, '\\"': 34, "\\\\": 92, "\\n": 10, "\\t": 9, "\\r": 13, "\\0": 0}
    if lit in esc:
        return esc[lit]
    if len(lit) == 1 and ord(lit) < 128:
        return ord(lit)
    raise ValueError(f"unrecognised literal {lit!r}")


def _bytes(s):
    return "[" + ", ".join(str(b) for b in s) + "]"


def generate(repo):
    dl = read(repo, "tera/src/delimiters.rs")
    lx = read(repo, "tera/src/parsing/lexer.rs")

    # ---- default delimiters
    m = re.search(r"impl Default for Delimiters\s*\{.*?Self\s*\{(.*?)\}\s*\}\s*\}", dl, re.S)
    if not m:
        raise ValueError("impl Default for Delimiters not found")
    fields = dict(re.findall(r"(\w+):\s*\"((?:[^\"\\]|\\.)*)\"\.into\(\)", m.group(1)))
    want = ["block_start", "block_end", "variable_start", "variable_end", "comment_start", "comment_end"]
    if sorted(fields) != sorted(want):
        raise ValueError(f"default delimiter fields {sorted(fields)}")
    dflt = {k: list(fields[k].encode("utf8")) for k in want}

    # ---- `validate`: nothing is generated from it (the algorithm is modelled by hand in
    # Model/Delims.lean and tied by the correspondence run, which feeds delimiter sets of every
    # length and every conflict to both sides); only a loose sanity check remains, written so that a
    # refactoring of the function (a closure or loop for the six length tests, reordered or merged
    # conflict tests) does not disturb it: the function exists, mentions all six fields, compares a
    # length with 2 and compares the three start delimiters pairwise.
    vb = fn_body(dl, r"fn\s+validate\s*\(\s*&self\s*\)[^{]*\{")
    if not all(re.search(rf"\b{f}\b", vb) for f in want):
        raise ValueError("validate: a delimiter field is no longer mentioned")
    if not re.search(r"\.len\(\)\s*(?:!=|==|<|>|<=|>=)\s*2\b|\b2\s*(?:!=|==)\s*\w+(?:\.\w+)*\.len\(\)", vb):
        raise ValueError("validate: no comparison of a length with 2")
    starts = {"block_start", "variable_start", "comment_start"}
    confl = {tuple(sorted((a, b))) for a, b in re.findall(r"self\.(\w+)\s*==\s*self\.(\w+)", vb)
             if a in starts and b in starts and a != b}
    if len(confl) != 3:
        raise ValueError(f"validate: the three start delimiters are not compared pairwise: {sorted(confl)}")

    # ---- operator tables
    ops2 = re.findall(r"Some\(b\"((?:[^\"\\]|\\.){2})\"\)\s*=>\s*Some\(Token::(\w+)\)", lx)
    ops1 = re.findall(r"Some\(b'((?:[^'\\]|\\.))'\)\s*=>\s*Some\(Token::(\w+)\)", lx)
    quotes = re.findall(r"Some\(b'((?:[^'\\]|\\.))'\)\s*=>\s*lex_string!\(b'((?:[^'\\]|\\.))'\)", lx)
    if len(ops2) < 5 or len(ops1) < 10 or len(quotes) < 1:
        raise ValueError("operator tables not recognised")
    for a, b in quotes:
        if a != b:
            raise ValueError("lex_string! called with a different delimiter than the one matched")
    sp = re.search(r"if let Some\(b\"((?:[^\"\\]|\\.)+)\"\)\s*=\s*rest\.as_bytes\(\)\.get\(\.\.(\d+)\)\s*\{\s*advance!\((\d+)\);\s*return Some\(Ok\(\(Token::(\w+)", lx)
    if not sp or sp.group(4) != "Spread" or not (len(sp.group(1)) == int(sp.group(2)) == int(sp.group(3))):
        raise ValueError("spread operator shape not recognised")
    spread = list(sp.group(1).encode())
    for _, name in ops2 + ops1:
        if name not in OPS:
            raise ValueError(f"operator token {name} unknown to Model/Token.lean")

    # ---- Debug names
    dbg_body = re.search(r"impl<'a> fmt::Debug for Token<'a>\s*\{(.*?)\n\}\n", lx, re.S)
    if not dbg_body:
        raise ValueError("Debug impl of Token not found")
    dbg = dict(re.findall(r"Token::(\w+)\s*=>\s*write!\(f,\s*\"([A-Z_]+)\"\)", dbg_body.group(1)))
    for o in OPS:
        if o not in dbg:
            raise ValueError(f"Debug name of Token::{o} not found")

    # ---- escapes of lex_string!
    ident_esc = re.search(r"((?:'(?:[^'\\]|\\.)'\s*\|\s*)+'(?:[^'\\]|\\.)')\s*=>\s*out\.push\(c2\)", lx)
    if not ident_esc:
        raise ValueError("identity escapes not found")
    esc = [(_byte_of(c), _byte_of(c)) for c in re.findall(r"'((?:[^'\\]|\\.))'", ident_esc.group(1))]
    for a, b in re.findall(r"'((?:[^'\\]|\\.))'\s*=>\s*out\.push\('((?:[^'\\]|\\.))'\)", lx):
        esc.append((_byte_of(a), _byte_of(b)))
    if len(esc) < 5:
        raise ValueError("escape table too small")

    # ---- raw tag names, bool keywords
    raw = re.search(r"skip_tag\(rest,\s*\"(\w+)\",", lx)
    endraw = re.search(r"skip_tag\(&rest\[offset\.\.\],\s*\"(\w+)\",", lx)
    if not raw or not endraw:
        raise ValueError("raw tag names not found")
    kws = []
    for mm in re.finditer(r"if ((?:ident == \"\w+\"(?:\s*\|\|\s*)?)+)\s*\{\s*return Some\(Ok\(\(Token::Bool\((true|false)\)", lx):
        for w in re.findall(r"\"(\w+)\"", mm.group(1)):
            kws.append((list(w.encode()), mm.group(2)))
    if len(kws) < 2:
        raise ValueError("bool keywords not found")

    # ---- parser.rs eoi(): which fields of the copied current span are overwritten (finding F13)
    ps = read(repo, "tera/src/parsing/parser.rs")
    m_eoi = re.search(r"fn eoi\(&self\) -> Error \{(.*?)\n    \}", ps, re.S)
    if not m_eoi or "self.current_span.clone()" not in m_eoi.group(1):
        raise ValueError("parser.rs eoi() not recognised")
    eoi_body = m_eoi.group(1)
    eoi_line = bool(re.search(r"span\.start_line\s*=\s*span\.end_line\s*;", eoi_body))
    eoi_col = bool(re.search(r"span\.start_col\s*=\s*span\.end_col\s*;", eoi_body))
    eoi_range = bool(re.search(r"span\.range\s*=\s*span\.range\.end\s*\.\.\s*span\.range\.end\s*;", eoi_body))
    n_assign = len(re.findall(r"\bspan\.\w+\s*=[^=]", eoi_body))
    if n_assign != int(eoi_line) + int(eoi_col) + int(eoi_range):
        raise ValueError("parser.rs eoi(): unrecognised assignment to the span")

    # ---- utils.rs Span::expand: translated statement by statement into a Lean function
    us = read(repo, "tera/src/utils.rs")
    m_exp = re.search(r"fn expand\(&mut self, other: &Span\) \{(.*?)\n    \}", us, re.S)
    if not m_exp:
        raise ValueError("utils.rs Span::expand not recognised")
    lean_field = {"start_line": "startLine", "start_col": "startCol", "end_line": "endLine", "end_col": "endCol"}
    expand_steps = []
    for stmt in [x.strip() for x in m_exp.group(1).split(";") if x.strip()]:
        m1 = re.fullmatch(r"self\.(\w+)\s*=\s*(self|other)\.(\w+)", stmt)
        m2 = re.fullmatch(r"self\.range\s*=\s*(self|other)\.range\.(start|end)\s*\.\.\s*(self|other)\.range\.(start|end)", stmt)
        if m1 and m1.group(1) in lean_field and m1.group(3) in lean_field:
            expand_steps.append(f"{lean_field[m1.group(1)]} := {'s' if m1.group(2) == 'self' else 'other'}.{lean_field[m1.group(3)]}")
        elif m2:
            side = lambda w, e: ("s" if w == "self" else "other") + (".rangeStart" if e == "start" else ".rangeEnd")  # noqa: E731
            expand_steps.append(f"rangeStart := {side(m2.group(1), m2.group(2))}, rangeEnd := {side(m2.group(3), m2.group(4))}")
        elif re.fullmatch(r"self\.range\.(start|end)\s*=\s*(self|other)\.range\.(start|end)", stmt):
            m3 = re.fullmatch(r"self\.range\.(start|end)\s*=\s*(self|other)\.range\.(start|end)", stmt)
            expand_steps.append(("rangeStart" if m3.group(1) == "start" else "rangeEnd") + " := " +
                                ("s" if m3.group(2) == "self" else "other") + (".rangeStart" if m3.group(3) == "start" else ".rangeEnd"))
        else:
            raise ValueError(f"utils.rs Span::expand: unrecognised statement {stmt!r}")

    # ---- tera.rs set_delimiters: is the new set validated BEFORE it is stored?
    tr = read(repo, "tera/src/tera.rs")
    m_sd = re.search(r"pub fn set_delimiters\(&mut self, delimiters: Delimiters\) -> TeraResult<\(\)> \{(.*?)\n    \}", tr, re.S)
    if not m_sd:
        raise ValueError("tera.rs set_delimiters not recognised")
    sd_body = m_sd.group(1)
    m_assign = re.search(r"self\.delimiters\s*=\s*delimiters\s*;", sd_body)
    m_val_new = re.search(r"\bdelimiters\.validate\(\)\s*\?\s*;", sd_body)
    if not m_assign or len(re.findall(r"self\.delimiters\s*=", sd_body)) != 1 or len(re.findall(r"validate\(\)", sd_body)) != 1:
        raise ValueError("tera.rs set_delimiters: unrecognised shape (one assignment, one validate call expected)")
    set_delims_validates_first = bool(m_val_new) and m_val_new.start() < m_assign.start() and \
        not re.search(r"self\.delimiters\.validate\(\)", sd_body)
    set_delims_refuses_after_add = bool(re.search(r"if !self\.templates\.is_empty\(\)\s*\{\s*return Err", sd_body)) and \
        sd_body.index("self.templates.is_empty()") < m_assign.start()

    camel = lambda s: s[0].lower() + "".join(p.capitalize() for p in s.split("_"))[1:]  # noqa: E731
    out = ["import TeraModel.Model.Delims", "import TeraModel.Model.Token", "namespace Tera.Generated", ""]
    out.append("/-- `impl Default for Delimiters` (delimiters.rs) -/")
    out.append("def defaultDelims : Delims :=\n  { " + ",\n    ".join(f"{camel(k)} := {_bytes(dflt[k])}" for k in want) + " }")
    out.append("")
    out.append("/-- two-byte operators, in match order (lexer.rs `rest.as_bytes().get(..2)`) -/")
    out.append("def ops2 : List (Bytes × Op) :=\n  [" + ",\n   ".join(f"({_bytes(list(s.encode()))}, .{n})" for s, n in ops2) + "]")
    out.append("")
    out.append("/-- one-byte operators, in match order (lexer.rs `rest.as_bytes().first()`) -/")
    out.append("def ops1 : List (Nat × Op) :=\n  [" + ",\n   ".join(f"({_byte_of(s)}, .{n})" for s, n in ops1) + "]")
    out.append("")
    out.append("/-- bytes that open a string literal (`lex_string!`) -/")
    out.append("def stringQuotes : List Nat := " + _bytes([_byte_of(a) for a, _ in quotes]))
    out.append(f"def spreadBytes : Bytes := {_bytes(spread)}")
    out.append("/-- escape table of `lex_string!`: (byte after the backslash, byte pushed) -/")
    out.append("def escapes : List (Nat × Nat) := [" + ", ".join(f"({a}, {b})" for a, b in esc) + "]")
    out.append(f"def rawName : Bytes := {_bytes(list(raw.group(1).encode()))}")
    out.append(f"def endrawName : Bytes := {_bytes(list(endraw.group(1).encode()))}")
    out.append("def boolKeywords : List (Bytes × Bool) := [" + ", ".join(f"({_bytes(w)}, {v})" for w, v in kws) + "]")
    out.append("")
    out.append("/-- parser.rs `eoi()`: which parts of the copied `current_span` are moved to its end -/")
    out.append(f"def eoiMovesLine : Bool := {str(eoi_line).lower()}")
    out.append(f"def eoiMovesCol : Bool := {str(eoi_col).lower()}")
    out.append(f"def eoiCollapsesRange : Bool := {str(eoi_range).lower()}")
    out.append("")
    out.append("/-- utils.rs `Span::expand(&mut self, other)`, one record update per Rust statement, in order -/")
    out.append("def spanExpand (self other : Lexer.Span) : Lexer.Span :=\n" +
               "  let s : Lexer.Span := self\n" + "".join(f"  let s : Lexer.Span := {{ s with {st} }}\n" for st in expand_steps) + "  s")
    out.append("")
    out.append("/-- tera.rs `set_delimiters`: `delimiters.validate()?` comes before `self.delimiters = delimiters` -/")
    out.append(f"def setDelimsValidatesFirst : Bool := {str(set_delims_validates_first).lower()}")
    out.append("/-- tera.rs `set_delimiters`: returns Err before anything else once templates exist -/")
    out.append(f"def setDelimsRefusesAfterAdd : Bool := {str(set_delims_refuses_after_add).lower()}")
    out.append("")
    out.append("/-- `Debug` names of the payload-free tokens -/")
    out.append("def opDebugName : Op → String\n" + "\n".join(f"  | .{o} => \"{dbg[o]}\"" for o in OPS))
    out.append("")
    out.append("end Tera.Generated")
    return {"LexTables.lean": "\n".join(out) + "\n"}
