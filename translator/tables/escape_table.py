"""C01: the byte -> replacement table of `escape_html` (tera/src/utils.rs, the non-`fast_escape`
branch) and the default autoescape suffix list (`impl Default for Tera`, tera/src/tera.rs).

Output: Generated/EscapeTable.lean

    Tera.Generated.escapeTable        : List (List Nat)   -- 256 rows; row b = bytes written for input byte b
    Tera.Generated.autoescapeSuffixes : List String
    Tera.Generated.unsafeKinds        : List String       -- kinds for which `Value::is_safe` answers false

Also insists (raising otherwise) that `Value::is_safe` is a match of the known three arms, that
`autoescape_enabled` is `autoescape_override.unwrap_or(template.autoescape_enabled)` and that the
interpreter has exactly the two sink tests and four escape calls the SafeFlow model mirrors.

The extractor insists on the exact loop shape (`for c in input.as_bytes() { match c { <arms> } }`)
where every arm is either  b'<char>' => buf.write_all(b"<ascii>")?,  or the default
`_ => buf.write_all(&[*c])?,`; anything else raises (the tie is then reported as broken).
"""
import os
import re
import sys

sys.path.insert(0, os.path.dirname(os.path.abspath(__file__)))
from _util import fn_body, read  # noqa: E402

OUTPUTS = ["EscapeTable.lean"]

_ESCAPES = {"\\'": "'", '\\"': '"', "\\\\": "\\", "\\n": "\n", "\\r": "\r", "\\t": "\t", "\\0": "\0"}


def _unescape_char(lit):
    if lit in _ESCAPES:
        return ord(_ESCAPES[lit])
    if len(lit) == 1:
        return ord(lit)
    m = re.fullmatch(r"\\x([0-9a-fA-F]{2})", lit)
    if m:
        return int(m.group(1), 16)
    raise ValueError(f"byte literal b'{lit}' not understood")


def _unescape_bytes(lit):
    out, i = [], 0
    while i < len(lit):
        if lit[i] == "\\":
            if lit[i + 1] == "x":
                out.append(int(lit[i + 2:i + 4], 16))
                i += 4
            else:
                out.append(_unescape_char(lit[i:i + 2]))
                i += 2
        else:
            if ord(lit[i]) > 127:
                raise ValueError("non-ASCII byte string literal")
            out.append(ord(lit[i]))
            i += 1
    return out


def escape_rows(repo):
    text = read(repo, "tera/src/utils.rs")
    body = fn_body(text, r"pub fn escape_html\s*\(\s*input\s*:\s*&str\s*,\s*buf\s*:\s*&mut dyn std::io::Write\s*\)[^{]*\{")
    m = re.search(r"#\[cfg\(not\(feature\s*=\s*\"fast_escape\"\)\)\]\s*\{", body)
    if not m:
        raise ValueError("escape_html: the non-fast_escape branch was not found")
    branch = fn_body(body[m.start():], r"#\[cfg\(not\(feature\s*=\s*\"fast_escape\"\)\)\]\s*\{")
    lm = re.search(r"for\s+c\s+in\s+input\.as_bytes\(\)\s*\{\s*match\s+c\s*\{", branch)
    if not lm:
        raise ValueError("escape_html: expected `for c in input.as_bytes() { match c {`")
    # nothing but the loop and the final Ok(()) may be in the branch
    arms_text = fn_body(branch[lm.start():], r"match\s+c\s*\{")
    after = branch[lm.start():]
    rest = branch[:lm.start()] + after[after.index(arms_text) + len(arms_text):]
    leftovers = re.sub(r"[\s{};]|Ok\(\(\)\)", "", rest)
    if leftovers:
        raise ValueError(f"escape_html: unexpected code around the byte loop: {leftovers[:80]!r}")
    rows = {}
    default_seen = False
    for line in arms_text.splitlines():
        line = line.strip()
        if not line or line.startswith("//"):
            continue
        BYTE = r"(?:b'(?:\\x[0-9a-fA-F]{2}|\\.|[^\\'])'|0x[0-9a-fA-F_]+(?:u8)?|[0-9_]+(?:u8)?)"
        a = re.fullmatch(r"(" + BYTE + r"(?:\s*\|\s*" + BYTE + r")*)\s*=>\s*buf\.write_all\(b\"((?:[^\"\\]|\\.)*)\"\)\?\s*,", line)
        if a:
            if default_seen:
                raise ValueError("escape_html: arm after the default arm")
            for pat in re.findall(BYTE, a.group(1)):
                if pat.startswith("b'"):
                    b = _unescape_char(pat[2:-1])
                else:
                    b = int(pat.replace("_", "").replace("u8", ""), 0)
                if not 0 <= b < 256 or b in rows:
                    raise ValueError(f"escape_html: byte {b} out of range or with two arms")
                rows[b] = _unescape_bytes(a.group(2))
            continue
        if re.fullmatch(r"_\s*=>\s*buf\.write_all\(&\[\*c\]\)\?\s*,", line):
            default_seen = True
            continue
        raise ValueError(f"escape_html: arm not understood: {line!r}")
    if not default_seen:
        raise ValueError("escape_html: no default arm `_ => buf.write_all(&[*c])?`")
    return [rows.get(b, [b]) for b in range(256)]


def suffixes(repo):
    text = read(repo, "tera/src/tera.rs")
    m = re.search(r"impl Default for Tera\s*\{", text)
    if not m:
        raise ValueError("impl Default for Tera not found")
    body = fn_body(text[m.start():], r"impl Default for Tera\s*\{")
    s = re.search(r"autoescape_suffixes\s*:\s*vec!\[(.*?)\]\s*,", body, re.S)
    if not s:
        raise ValueError("autoescape_suffixes: vec![..] not found in Default for Tera")
    items = [x.strip() for x in s.group(1).split(",") if x.strip()]
    out = []
    for it in items:
        q = re.fullmatch(r'Cow::Borrowed\("((?:[^"\\]|\\.)*)"\)', it)
        if not q:
            raise ValueError(f"autoescape suffix not understood: {it!r}")
        if "\\" in q.group(1):
            raise ValueError("escape sequence in autoescape suffix")
        out.append(q.group(1))
    e = re.search(r"escape_fn\s*:\s*(\w+)\s*,", body)
    if not e or e.group(1) != "escape_html":
        raise ValueError("default escape_fn is not escape_html")
    return out


KINDS = ["Undefined", "None", "Bool", "U64", "I64", "F64", "U128", "I128", "String", "Array", "Map", "Bytes"]


def is_safe_kinds(repo):
    """`Value::is_safe`: String => kind == Safe; the kinds answering false; everything else true"""
    text = read(repo, "tera/src/value/mod.rs")
    body = fn_body(text, r"pub fn is_safe\s*\(\s*&self\s*\)\s*->\s*bool\s*\{")
    m = re.search(r"match\s+&self\.inner\s*\{(.*)\}", body, re.S)
    if not m:
        raise ValueError("Value::is_safe: `match &self.inner` not found")
    arms = [" ".join(a.split()) for a in m.group(1).split(",") if a.strip()]
    unsafe, seen_string, seen_default = [], False, False
    for a in arms:
        if re.fullmatch(r"ValueInner::String\(s\) => s\.kind\(\) == StringKind::Safe", a):
            seen_string = True
            continue
        f = re.fullmatch(r"((?:ValueInner::\w+\(_\)\s*\|?\s*)+)=> false", a)
        if f:
            unsafe += re.findall(r"ValueInner::(\w+)\(_\)", f.group(1))
            continue
        if a == "_ => true":
            seen_default = True
            continue
        raise ValueError(f"Value::is_safe: arm not understood: {a!r}")
    if not (seen_string and seen_default):
        raise ValueError("Value::is_safe: String arm or default arm missing")
    if any(k not in KINDS or k == "String" for k in unsafe):
        raise ValueError(f"Value::is_safe: unknown kinds {unsafe}")
    return unsafe


def sink_shape(repo):
    """The two sinks and `autoescape_enabled` have the shape the SafeFlow model mirrors."""
    text = read(repo, "tera/src/vm/interpreter.rs")
    text = re.sub(r"//[^\n]*", "", text)  # comments do not count
    ae = fn_body(text, r"fn autoescape_enabled\s*\(\s*&self\s*\)\s*->\s*bool\s*\{")
    if " ".join(ae.split()) != "self.autoescape_override .unwrap_or(self.template.autoescape_enabled)":
        raise ValueError("autoescape_enabled is not `autoescape_override.unwrap_or(template.autoescape_enabled)`")
    counts = {
        "top": len(re.findall(r"if\s+!self\.autoescape_enabled\(\)\s*\|\|\s*top\.is_safe\(\)\s*\{", text)),
        "path": len(re.findall(r"if\s+!self\.autoescape_enabled\(\)\s*\|\|\s*val\.is_safe\(\)\s*\{", text)),
        "esc_captured": len(re.findall(r"\(self\.tera\.escape_fn\)\(escaped,\s*captured\)\?", text)),
        "esc_output": len(re.findall(r"\(self\.tera\.escape_fn\)\(escaped,\s*output\)\?", text)),
        "autoescape_tests": len(re.findall(r"autoescape_enabled\(\)", text)),
    }
    want = {"top": 1, "path": 1, "esc_captured": 2, "esc_output": 2, "autoescape_tests": 2}
    if counts != want:
        raise ValueError(f"sinks of the interpreter changed shape: {counts} (expected {want})")
    return counts


def generate(repo):
    rows = escape_rows(repo)
    sfx = suffixes(repo)
    unsafe = is_safe_kinds(repo)
    sink_shape(repo)
    lines = ["namespace Tera.Generated", "",
             "/-- row `b` = the bytes `escape_html` (tera/src/utils.rs) writes for input byte `b` -/",
             "def escapeTable : List (List Nat) := ["]
    for b in range(0, 256, 8):
        lines.append("  " + ", ".join("[" + ", ".join(str(x) for x in rows[i]) + "]" for i in range(b, b + 8))
                     + ("," if b + 8 < 256 else ""))
    lines.append("]")
    lines.append("")
    lines.append("/-- `autoescape_suffixes` of `Tera::default()` (tera/src/tera.rs) -/")
    lines.append("def autoescapeSuffixes : List String := [" + ", ".join('"' + s + '"' for s in sfx) + "]")
    lines.append("")
    lines.append("/-- `Value::is_safe` (tera/src/value/mod.rs): a String is safe iff its kind is Safe; these kinds")
    lines.append("answer `false`; every other kind answers `true` -/")
    lines.append("def unsafeKinds : List String := [" + ", ".join('"' + k + '"' for k in unsafe) + "]")
    lines.append("")
    lines.append("end Tera.Generated")
    return {"EscapeTable.lean": "\n".join(lines) + "\n"}
